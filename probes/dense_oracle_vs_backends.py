import sys
sys.path.insert(0,'/tmp/scratch/repo')
import torch, numpy as np, pulser, logging, warnings, scipy.linalg as sla, scipy.interpolate as si
torch.set_num_threads(1)
warnings.filterwarnings("ignore")
from pulser import Sequence, Pulse, Register
from pulser.devices import MockDevice
from pulser.waveforms import ConstantWaveform, RampWaveform, BlackmanWaveform
from pulser._hamiltonian_data import HamiltonianData
from emu_sv import SVBackend, SVConfig, Occupation, StateResult, Energy, CorrelationMatrix
from emu_mps import MPSBackend, MPSConfig
reg = Register({"q0":(0,0),"q1":(7,0),"q2":(3,7), "q3":(12,5)})
seq = Sequence(reg, MockDevice)
seq.declare_channel("ryd","rydberg_global")
seq.declare_channel("loc","rydberg_local", initial_target="q1")
dm = reg.define_detuning_map({"q0":0.2,"q2":0.8})
seq.config_detuning_map(dm, "dmm_0")
seq.config_slm_mask(["q3"])
seq.add(Pulse(BlackmanWaveform(52, 1.0), RampWaveform(52,-3,3), 0.3),"ryd")
seq.add(Pulse(ConstantWaveform(40, 3.0), ConstantWaveform(40,1.0), 1.3),"loc")
seq.target("q2","loc")
seq.add(Pulse(ConstantWaveform(30, 2.0), ConstantWaveform(30,-1.0), 0.0),"loc")
seq.add_dmm_detuning(RampWaveform(60,-5,0),"dmm_0")
T = seq.get_duration(); dt=7.0
evals=[0.33, 52/T, 1.0]
# --- independent reference
hd = HamiltonianData.from_sequence(seq)
samples = next(iter(hd.noisy_samples)).samples.to_nested_dict(all_local=True)["Local"]["ground-rydberg"]
qids = list(reg.qubit_ids); N=len(qids)
grid = sorted(set([k*dt for k in range(int(T//dt)+1)] + [T] + [e*T for e in evals]))
mids = [(a+b)/2 for a,b in zip(grid[:-1],grid[1:])]
tg = np.arange(T, dtype=float)
def interp(sig): return si.PchipInterpolator(tg, np.asarray(sig,dtype=float), extrapolate=True)(mids)
amp = np.array([np.maximum(interp(samples[q]["amp"]),0) for q in qids]).T
det = np.array([interp(samples[q]["det"]) for q in qids]).T
ph = np.array([interp(samples[q]["phase"]) for q in qids]).T
pos = np.array([reg.qubits[q].as_array() for q in qids]) if hasattr(reg.qubits[qids[0]],'as_array') else np.array([reg.qubits[q] for q in qids])
U = np.zeros((N,N))
for i in range(N):
    for j in range(N):
        if i!=j: U[i,j]=MockDevice.interaction_coeff/np.linalg.norm(pos[i]-pos[j])**6
U = np.asarray(hd.noisy_interaction_matrices[0].as_array())[0]
slm_end = seq._slm_mask_time[1]; masked=[qids.index(q) for q in seq._slm_mask_targets]
I2=np.eye(2); nop=np.diag([0,1.]); 
def op(o,i):
    out=np.array([[1.]])
    for k in range(N): out=np.kron(out, o if k==i else I2)
    return out
def H(k):
    Uk=U.copy()
    if grid[k] < slm_end:
        for m in masked: Uk[m,:]=0; Uk[:,m]=0
    h=np.zeros((2**N,2**N),dtype=complex)
    for i in range(N):
        gr = np.array([[0, amp[k,i]/2*np.exp(-1j*ph[k,i])],[amp[k,i]/2*np.exp(1j*ph[k,i]),0]])
        h+=op(gr,i)-det[k,i]*op(nop,i)
        for j in range(i+1,N): h+=Uk[i,j]*op(nop,i)@op(nop,j)
    return h
psi=np.zeros(2**N,dtype=complex); psi[0]=1
ref={}
for k in range(len(mids)):
    psi=sla.expm(-1j*H(k)*(grid[k+1]-grid[k])*1e-3)@psi
    ref[grid[k+1]]=(psi.copy(), H(k))
cfg = SVConfig(dt=dt, observables=[Occupation(evaluation_times=evals), StateResult(evaluation_times=evals), Energy(evaluation_times=evals)], gpu=False, log_level=logging.WARN, krylov_tolerance=1e-10)
res = SVBackend(seq, config=cfg).run()
for e,st,occ,en in zip(evals, res.state, res.occupation, res.energy):
    p,h = ref[min(ref, key=lambda t: abs(t-e*T))]
    print("t",e, "state err", np.abs(st.data.numpy()-p).max(), "occ err", np.abs(occ.numpy()-[ (p.conj()@op(nop,i)@p).real for i in range(N)]).max(), "E err", abs(en.item()-(p.conj()@h@p).real))
cfg = MPSConfig(dt=dt, observables=[Occupation(evaluation_times=evals), Energy(evaluation_times=evals)], num_gpus_to_use=0, log_level=logging.WARN, precision=1e-8, optimize_qubit_ordering=False)
res = MPSBackend(seq, config=cfg).run()
for e,occ,en in zip(evals, res.occupation, res.energy):
    p,h = ref[min(ref, key=lambda t: abs(t-e*T))]
    print("MPS t",e, "occ err", np.abs(occ.numpy()-[ (p.conj()@op(nop,i)@p).real for i in range(N)]).max(), "E err", abs(en.item()-(p.conj()@h@p).real))
