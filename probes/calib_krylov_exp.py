import sys
sys.path.insert(0,'/tmp/scratch/repo')
import torch, numpy as np, scipy.linalg as sla, math
torch.set_num_threads(1)
from emu_base.math.krylov_exp import krylov_exp_impl
from emu_base.math.krylov_energy_min import krylov_energy_minimization_impl
rng = np.random.default_rng(0)
worst = {}
def herm(n, scale):
    a = rng.normal(size=(n,n))+1j*rng.normal(size=(n,n)); a=(a+a.conj().T)/2
    return a*scale/np.linalg.norm(a,2)
stats=[]
for trial in range(600):
    n = int(rng.integers(1,65)); scale = 10**rng.uniform(-2,1.7); tol = 10**rng.uniform(-12,-4)
    kind = rng.integers(0,3)
    H = herm(n, scale)
    if kind==0: A = -1j*H; herm_flag=True
    elif kind==1:
        g = rng.normal(size=(n,n))+1j*rng.normal(size=(n,n)); G = g@g.conj().T; G*= scale*0.3/np.linalg.norm(G,2)
        A = -1j*(H-0.5j*G); herm_flag=False
    else:
        A = -1j*H; herm_flag=False
    v = rng.normal(size=n)+1j*rng.normal(size=n); v*=10**rng.uniform(-2,2)
    At = torch.tensor(A); vt = torch.tensor(v)
    mk = int(rng.choice([5,20,100]))
    r = krylov_exp_impl(lambda x: At@x, vt.clone(), is_hermitian=herm_flag, exp_tolerance=tol, norm_tolerance=tol, max_krylov_dim=mk)
    exact = sla.expm(A)@v
    err = np.linalg.norm(r.result.numpy()-exact)/np.linalg.norm(v)
    stats.append((err/tol, r.converged, r.happy_breakdown, n, scale, tol, kind, mk, r.iteration_count))
conv=[s for s in stats if s[1]]
print("converged", len(conv), "of", len(stats))
conv.sort(key=lambda s:-s[0])
for s in conv[:8]: print("err/tol=%.3g hb=%s n=%d scale=%.3g tol=%.2g kind=%d mk=%d it=%d"%(s[0],s[2],s[3],s[4],s[5],s[6],s[7],s[8]))
# with rounding floor: err - 1e-13*? 
