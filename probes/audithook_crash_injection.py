import sys, os, pathlib, tempfile, pickle
events=[]; crash_at=[None]
class Crash(BaseException): pass
def hook(ev, args):
    if ev in ("open","os.rename","os.remove","os.truncate","shutil.move","os.mkdir","os.rmdir"):
        if ev=="open" and (args[1] is None or not any(c in str(args[1]) for c in "wax+")): return
        if "vptest" not in str(args[0]): return
        events.append((ev, tuple(str(a) for a in args[:2])))
        if crash_at[0] is not None and len(events)-1==crash_at[0]:
            raise Crash(ev)
sys.addaudithook(hook)
d=tempfile.mkdtemp(prefix="vptest")
base=pathlib.Path(d)/"save.dat"
def save(obj):
    with open(base.with_suffix(".new"),"wb") as f: pickle.dump(obj,f)
    if base.is_file(): os.rename(base, base.with_suffix(".bak"))
    os.rename(base.with_suffix(".new"), base)
    if base.with_suffix(".bak").is_file(): os.remove(base.with_suffix(".bak"))
save(1); print(events); n=len(events)
events.clear(); save(2); print(events)
for j in range(5):
    events.clear(); crash_at[0]=j
    try: save(3+j); print(j,"no crash")
    except Crash as e: print(j,"crashed before",e, "files:", sorted(os.listdir(d)))
    crash_at[0]=None
    # restore
    for f in os.listdir(d): os.remove(os.path.join(d,f))
    save(2)
# Path.rename / os.replace also produce os.rename?
events.clear(); base.replace(base.with_suffix(".x")); base.with_suffix(".x").rename(base); base.unlink(); print(events)
