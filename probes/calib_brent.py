import sys
sys.path.insert(0,'/tmp/scratch/repo')
import numpy as np, math
from emu_base.math.brents_root_finding import find_root_brents, BrentsRootFinder
rng=np.random.default_rng(2)
bad=[]; maxit=0
def run(f,a,b,tol,eps):
    calls=[]
    def g(x):
        calls.append(x); return f(x)
    try:
        x=find_root_brents(g,start=a,end=b,tolerance=tol,epsilon=eps)
    except Exception as e:
        return ("EXC",type(e).__name__,str(e),len(calls))
    return (x,calls)
import itertools
cnt=0
for trial in range(20000):
    a=rng.uniform(-10,10)*10.0**rng.integers(-2,4); w=10**rng.uniform(-3,4); b=a+w
    kind=rng.integers(0,6)
    r0=a+w*rng.uniform(0.01,0.99)
    if kind==0: f=lambda x,r0=r0:(x-r0)
    elif kind==1: f=lambda x,r0=r0:(x-r0)**3
    elif kind==2: f=lambda x,r0=r0:math.tanh(1e3*(x-r0)/w)
    elif kind==3: f=lambda x,r0=r0:(1.0 if x>r0 else -1.0)
    elif kind==4:
        k=float(rng.integers(1,20)); f=lambda x,r0=r0,k=k:math.sin(k*math.pi*(x-a)/w+0.3)  # maybe multiple roots
    else:
        # exact zero at midpoint and integers
        a=float(rng.integers(-5,0)); b=float(rng.integers(1,6)); w=b-a; f=lambda x:x*(x*x+1)
    if f(a)*f(b)>=0: continue
    tol=10**rng.uniform(-9,0)*1.0; eps=float(rng.choice([1e-12,1e-6,1e-3,1.0]))
    cnt+=1
    out=run(f,a,b,tol,eps)
    if out[0]=="EXC": bad.append((kind,a,b,tol,eps,out)); continue
    x,calls=out; maxit=max(maxit,len(calls))
    if not all(min(a,b)-1e-12<=c<=max(a,b)+1e-12 for c in calls): bad.append(("OUTSIDE",kind,a,b,tol,eps))
    lo=max(a,x-tol); hi=min(b,x+tol)
    if not (f(lo)*f(hi)<=0): bad.append(("NOSIGN",kind,a,b,tol,eps,x,f(lo),f(hi)))
print(cnt,"cases; maxit",maxit,"bad",len(bad))
from collections import Counter
print(Counter((b[0] if isinstance(b[0],str) else "EXC:"+b[5][1]) for b in bad))
for b in bad[:6]: print(b)
