import sys
sys.path.insert(0,'/tmp/scratch/repo')
import torch, numpy as np, logging, warnings, random, math
torch.set_num_threads(1); warnings.filterwarnings("ignore")
from pulser import Sequence, Pulse, Register, NoiseModel
from pulser.devices import MockDevice
from pulser.waveforms import ConstantWaveform
from emu_base import PulserData
from emu_mps import MPSConfig, Occupation
from emu_mps.mps_backend_impl import create_impl, NoisyMPSBackendImpl
reg = Register({"q0":(0,0),"q1":(7,0)})
seq = Sequence(reg, MockDevice); seq.declare_channel("ryd","rydberg_global")
seq.add(Pulse(ConstantWaveform(100, 3.0), ConstantWaveform(100,0.0), 0.0),"ryd")
nm = NoiseModel(dephasing_rate=5.0)
cfg = MPSConfig(dt=10, observables=[Occupation(evaluation_times=[0.5,1.0])], num_gpus_to_use=0, log_level=logging.WARN, noise_model=nm)
sd = next(iter(PulserData(sequence=seq, config=cfg, dt=10).get_sequences()))
random.seed(3)
impl = create_impl(sd, cfg); impl.init()
assert isinstance(impl, NoisyMPSBackendImpl)
trace=[]
rate = 30.0  # per us
clock = {"t_last_norm_reset": 0.0}
def stub(*indices, dt, orth_center_right=None):
    # norm^2 decays exponentially in time since last evolution call
    c = impl.state.orthogonality_center
    impl.state.factors[c] = impl.state.factors[c]*math.exp(-0.5*rate*dt*1e-3)
    trace.append(("evolve", impl.current_time, impl.target_time, dt))
impl._evolve = stub
orig_jump = impl.do_random_quantum_jump
def jump():
    trace.append(("jump", impl.current_time, impl._timestep_index)); orig_jump()
impl.do_random_quantum_jump = jump
orig_tc = impl.timestep_complete
def tc():
    trace.append(("step_complete", impl.current_time, impl._timestep_index)); orig_tc()
impl.timestep_complete = tc
n=0
while not impl.is_finished():
    impl.progress(); n+=1
    assert n<10000
print(n, "progress calls")
for t in trace:
    if t[0]!="evolve": print(t)
print(impl.results.get_result_times("occupation"))
