import sys, time
sys.path.insert(0,'/tmp/scratch/repo')
import torch, numpy as np, logging, warnings, scipy.linalg as sla, scipy.interpolate as si
torch.set_num_threads(1); warnings.filterwarnings("ignore")
from pulser import Sequence, Pulse, Register
from pulser.devices import MockDevice
from pulser.waveforms import ConstantWaveform, RampWaveform, BlackmanWaveform
from pulser._hamiltonian_data import HamiltonianData
from emu_mps import MPSBackend, MPSConfig, Occupation, Energy
rng=np.random.default_rng(5)
def dense_ref(seq, dt, evals):
    T=seq.get_duration(); reg=seq.register; qids=list(reg.qubit_ids); N=len(qids)
    hd=HamiltonianData.from_sequence(seq)
    s=next(iter(hd.noisy_samples)).samples.to_nested_dict(all_local=True)["Local"]["ground-rydberg"]
    grid=sorted(set([k*dt for k in range(int(T//dt)+1)]+[T]+[e*T for e in evals])); mids=[(a+b)/2 for a,b in zip(grid[:-1],grid[1:])]
    tg=np.arange(T,dtype=float)
    it=lambda sig: si.PchipInterpolator(tg,np.asarray(sig,dtype=float),extrapolate=True)(mids)
    amp=np.array([np.maximum(it(s[q]["amp"]),0) for q in qids]).T; det=np.array([it(s[q]["det"]) for q in qids]).T; ph=np.array([it(s[q]["phase"]) for q in qids]).T
    U=np.asarray(hd.noisy_interaction_matrices[0].as_array())[0]
    I2=np.eye(2); nop=np.diag([0,1.])
    def op(o,i):
        out=np.array([[1.]])
        for k in range(N): out=np.kron(out,o if k==i else I2)
        return out
    ns=[op(nop,i) for i in range(N)]
    psi=np.zeros(2**N,dtype=complex); psi[0]=1; out={}
    for k in range(len(mids)):
        h=np.zeros((2**N,2**N),dtype=complex)
        for i in range(N):
            gr=np.array([[0,amp[k,i]/2*np.exp(-1j*ph[k,i])],[amp[k,i]/2*np.exp(1j*ph[k,i]),0]])
            h+=op(gr,i)-det[k,i]*ns[i]
            for j in range(i+1,N): h+=U[i,j]*ns[i]@ns[j]
        psi=sla.expm(-1j*h*(grid[k+1]-grid[k])*1e-3)@psi
        out[grid[k+1]]=(np.array([(psi.conj()@n@psi).real for n in ns]), (psi.conj()@h@psi).real)
    return out
for N in (3,5,7):
  for prec in (1e-5,1e-7,1e-9):
    for dt in (2,10):
        ang=np.linspace(0,2*np.pi,N,endpoint=False); R=7.0/(2*np.sin(np.pi/N)) if N>2 else 3.5
        ids=[f"q{i}" for i in rng.permutation(N)]
        reg=Register({ids[i]:(R*np.cos(ang[i]),R*np.sin(ang[i])) for i in range(N)})
        seq=Sequence(reg,MockDevice); seq.declare_channel("ryd","rydberg_global")
        seq.add(Pulse(BlackmanWaveform(200,3.0),RampWaveform(200,-6,6),0.2),"ryd")
        evals=[0.5,1.0]
        ref=dense_ref(seq,dt,evals)
        for reorder in (False,):
            cfg=MPSConfig(dt=dt,precision=prec,observables=[Occupation(evaluation_times=evals),Energy(evaluation_times=evals)],num_gpus_to_use=0,log_level=logging.WARN,optimize_qubit_ordering=reorder)
            t=time.time(); r=MPSBackend(seq,config=cfg).run(); el=time.time()-t
            eo=max(np.abs(o.numpy()-ref[e*200][0]).max() for e,o in zip(evals,r.occupation)); ee=max(abs(en.item()-ref[e*200][1]) for e,en in zip(evals,r.energy))
            print(f"N={N} prec={prec:g} dt={dt} occ_err={eo:.2e} E_err={ee:.2e} chi={r.statistics[-1]['max_bond_dimension']} t={el:.1f}s")
