import sys
sys.path.insert(0,'/tmp/scratch/repo')
import torch, numpy as np, math
torch.set_num_threads(1)
from emu_base.math.krylov_energy_min import krylov_energy_minimization_impl
rng = np.random.default_rng(1)
rows=[]
for trial in range(800):
    n = int(rng.integers(1,129)); 
    kind = rng.integers(0,4)
    if kind==0: ev = rng.normal(size=n)*10**rng.uniform(-1,2)
    elif kind==1: ev = np.concatenate([np.full(min(3,n), -5.0), rng.uniform(-4,5,size=max(0,n-3))])   # degenerate ground
    elif kind==2: ev = -5+ np.concatenate([[0.0], 10**rng.uniform(-8,-2,size=min(n-1,4)), rng.uniform(1,10,size=max(0,n-5))])[:n] # clustered
    else: ev = np.concatenate([[-10.0], rng.uniform(0,1,size=n-1)])*10**rng.uniform(-1,2)
    q,_ = np.linalg.qr(rng.normal(size=(n,n))+1j*rng.normal(size=(n,n)))
    H = (q*ev)@q.conj().T; H=(H+H.conj().T)/2
    tol = 10**rng.uniform(-10,-3); mk=int(rng.choice([3,10,30,100])); mr=int(rng.choice([0,2,100]))
    v = rng.normal(size=n)+1j*rng.normal(size=n)
    Ht=torch.tensor(H)
    try:
        r = krylov_energy_minimization_impl(lambda x: Ht@x, torch.tensor(v), residual_tolerance=tol, norm_tolerance=tol*1e-3, max_krylov_dim=mk, max_restarts=mr)
    except Exception as e:
        rows.append(("EXC", type(e).__name__, str(e), n, kind, tol, mk, mr)); continue
    psi = r.ground_state.numpy(); E = r.ground_energy.item()
    nrm = np.linalg.norm(psi); rq = (psi.conj()@H@psi).real/nrm**2
    res = np.linalg.norm(H@psi-E*psi)
    lam = np.linalg.eigvalsh(H)[0]; hn=np.abs(ev).max()
    rows.append((abs(nrm-1), abs(rq-E)/hn, (lam-E)/hn, res, r.converged, r.happy_breakdown, tol, n, kind, mk, mr, r.residual_norm.item(), hn))
exc=[r for r in rows if r[0]=="EXC"]; print("exceptions", len(exc), exc[:3])
ok=[r for r in rows if r[0]!="EXC"]
print("max |norm-1|", max(r[0] for r in ok))
print("max |RQ-E|/|H|", max(r[1] for r in ok))
print("max (lam-E)/|H| (positive = below true min)", max(r[2] for r in ok))
cv=[r for r in ok if r[4] and not r[5]]
print("converged-nobreakdown", len(cv), "max true_res/tol", max(r[3]/r[6] for r in cv), "max (true_res - tol)/|H|", max((r[3]-r[6])/r[12] for r in cv))
cv.sort(key=lambda r:-(r[3]/r[6]))
for r in cv[:5]: print("res/tol=%.3g est=%.3g tol=%.2g n=%d kind=%d mk=%d mr=%d |H|=%.3g"%(r[3]/r[6], r[11], r[6], r[7], r[8], r[9], r[10], r[12]))
hb=[r for r in ok if r[5]]; print("breakdowns", len(hb), "nonconv", len([r for r in ok if not r[4]]))
