import sys
sys.path.insert(0,'/tmp/scratch/repo')
import torch, numpy as np, logging, warnings, scipy.linalg as sla, scipy.interpolate as si, dataclasses
torch.set_num_threads(1); warnings.filterwarnings("ignore")
from pulser import Sequence, Pulse, Register, NoiseModel
from pulser.devices import MockDevice, VirtualDevice
from pulser.waveforms import ConstantWaveform, RampWaveform, BlackmanWaveform
from pulser._hamiltonian_data import HamiltonianData
from emu_sv import SVBackend, SVConfig, Occupation, StateResult
from emu_mps import MPSBackend, MPSConfig, Solver, Energy
reg=Register({"a":(0,0),"b":(6.5,0)}); N=2
seq=Sequence(reg,MockDevice); seq.declare_channel("ryd","rydberg_global")
seq.add(Pulse(BlackmanWaveform(100,2.5),RampWaveform(100,-4,4),0.7),"ryd")
eff=np.array([[0.3,1.0-0.5j],[0.2j,-0.1]])
nm=NoiseModel(relaxation_rate=1.5, dephasing_rate=0.8, depolarizing_rate=0.4, eff_noise_rates=(0.9,), eff_noise_opers=(eff,))
dt=5; T=100; evals=[0.5,1.0]
hd=HamiltonianData.from_sequence(seq, noise_model=nm)
ld=hd.lindblad_data; eb=hd.basis_data.eigenbasis
print("eigenbasis",eb, ld.op_matrix_names, ld.local_collapse_ops, ld.depolarizing_pauli_2ds)
# build collapse ops in pulser basis order then permute to (g,r)
idx={s:i for i,s in enumerate(eb)}
def named(name):
    if name in ld.depolarizing_pauli_2ds:
        return sum(c*named(n) for c,n in ld.depolarizing_pauli_2ds[name])
    a,b=name[-2],name[-1]; m=np.zeros((2,2),dtype=complex); m[idx[a],idx[b]]=1; return m
Ls=[]
for c,o in ld.local_collapse_ops:
    m = named(o) if isinstance(o,str) else np.asarray(o,dtype=complex)
    Ls.append(c*m)
P=np.zeros((2,2)); emu=["g","r"]
for i,s in enumerate(emu): P[i,idx[s]]=1
Ls=[P@L@P.T for L in Ls]
s=next(iter(hd.noisy_samples)).samples.to_nested_dict(all_local=True)["Local"]["ground-rydberg"]
qids=list(reg.qubit_ids)
grid=sorted(set([k*dt for k in range(int(T//dt)+1)]+[T]+[e*T for e in evals])); mids=[(a+b)/2 for a,b in zip(grid[:-1],grid[1:])]
tg=np.arange(T,dtype=float); it=lambda sig: si.PchipInterpolator(tg,np.asarray(sig,dtype=float),extrapolate=True)(mids)
amp=np.array([np.maximum(it(s[q]["amp"]),0) for q in qids]).T; det=np.array([it(s[q]["det"]) for q in qids]).T; ph=np.array([it(s[q]["phase"]) for q in qids]).T
U=np.asarray(hd.noisy_interaction_matrices[0].as_array())[0]
I2=np.eye(2); nop=np.diag([0,1.])
def op(o,i):
    out=np.array([[1.]])
    for k in range(N): out=np.kron(out,o if k==i else I2)
    return out
D=2**N; Id=np.eye(D)
def liouv(h):
    # row-major vec: vec(A rho B) = kron(A, B^T) vec(rho)
    Lv=-1j*(np.kron(h,Id)-np.kron(Id,h.T))
    for i in range(N):
        for L in Ls:
            Lf=op(L,i); LdL=Lf.conj().T@Lf
            Lv+=np.kron(Lf,Lf.conj())-0.5*np.kron(LdL,Id)-0.5*np.kron(Id,LdL.T)
    return Lv
rho=np.zeros((D,D),dtype=complex); rho[0,0]=1; ref={}
for k in range(len(mids)):
    h=np.zeros((D,D),dtype=complex)
    for i in range(N):
        gr=np.array([[0,amp[k,i]/2*np.exp(-1j*ph[k,i])],[amp[k,i]/2*np.exp(1j*ph[k,i]),0]])
        h+=op(gr,i)-det[k,i]*op(nop,i)
        for j in range(i+1,N): h+=U[i,j]*op(nop,i)@op(nop,j)
    rho=(sla.expm(liouv(h)*(grid[k+1]-grid[k])*1e-3)@rho.reshape(-1)).reshape(D,D); ref[grid[k+1]]=rho.copy()
cfg=SVConfig(dt=dt,observables=[Occupation(evaluation_times=evals),StateResult(evaluation_times=evals)],gpu=False,log_level=logging.WARN,noise_model=nm,krylov_tolerance=1e-10)
r=SVBackend(seq,config=cfg).run()
for e,st in zip(evals,r.state):
    print("t",e,"rho err",np.abs(st.data.numpy()-ref[e*T]).max(),"trace",np.trace(st.data.numpy()).real, "minEig", np.linalg.eigvalsh((st.data.numpy()+st.data.numpy().conj().T)/2)[0])
# DMRG + device default noise model
try:
    dev=dataclasses.replace(MockDevice, name="noisydev", default_noise_model=NoiseModel(relaxation_rate=1.0))
    seq2=Sequence(reg,dev); seq2.declare_channel("ryd","rydberg_global"); seq2.add(Pulse(ConstantWaveform(50,2.0),ConstantWaveform(50,1.0),0.0),"ryd")
    cfg=MPSConfig(dt=10,observables=[Energy()],num_gpus_to_use=0,log_level=logging.WARN,solver=Solver.DMRG,prefer_device_noise_model=True,n_trajectories=1)
    r=MPSBackend(seq2,config=cfg).run(); print("DMRG+device noise ran, energy",r.energy)
except Exception as e:
    print("DMRG+device noise raised",type(e).__name__,str(e)[:200])
try:
    cfg=MPSConfig(dt=10,observables=[Energy()],num_gpus_to_use=0,log_level=logging.WARN,solver=Solver.DMRG,noise_model=NoiseModel(relaxation_rate=1.0))
    r=MPSBackend(seq,config=cfg).run(); print("DMRG+noise ran, energy",r.energy)
except Exception as e:
    print("DMRG+noise raised",type(e).__name__,str(e)[:200])
