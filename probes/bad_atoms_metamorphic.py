import sys
sys.path.insert(0,'/tmp/scratch/repo')
import torch, numpy as np, logging, warnings
torch.set_num_threads(1); warnings.filterwarnings("ignore")
from pulser import Sequence, Pulse, Register, NoiseModel
from pulser.devices import MockDevice
from pulser.waveforms import ConstantWaveform, RampWaveform, BlackmanWaveform
from emu_base import PulserData
from emu_sv import SVBackend, SVConfig, Occupation, CorrelationMatrix, BitStrings
from emu_mps import MPSBackend, MPSConfig
coords={"a":(0,0),"b":(6.5,0),"c":(3,6),"d":(10,6)}
def mk(ids):
    reg=Register({k:coords[k] for k in ids}); seq=Sequence(reg,MockDevice); seq.declare_channel("ryd","rydberg_global")
    seq.add(Pulse(BlackmanWaveform(100,2.5),RampWaveform(100,-4,4),0.7),"ryd"); return seq
nm=NoiseModel(state_prep_error=0.5)
for seed in range(6):
    np.random.seed(seed)
    for B,C,kw in [(SVBackend,SVConfig,dict(gpu=False)),(MPSBackend,MPSConfig,dict(num_gpus_to_use=0,optimize_qubit_ordering=False)),(MPSBackend,MPSConfig,dict(num_gpus_to_use=0,optimize_qubit_ordering=True))]:
        cfg=C(dt=10,observables=[Occupation(),BitStrings(num_shots=20)],log_level=logging.WARN,noise_model=nm,**kw)
        np.random.seed(seed)
        pd=PulserData(sequence=mk("abcd"),config=cfg,dt=10); sd=next(iter(pd.get_sequences()))
        good=[k for k,b in zip(sd.qubit_ids,sd.bad_atoms) if not b]
        try:
            r=B._run_from_sequence_data(sd,cfg); occ=r.occupation[-1].numpy()
        except Exception as e:
            print(seed,B.__name__,kw.get("optimize_qubit_ordering"),"bad",sd.bad_atoms,"EXC",type(e).__name__,str(e)[:80]); continue
        if len(good)>=2 or B is SVBackend and len(good)>=1:
            cfg2=C(dt=10,observables=[Occupation()],log_level=logging.WARN,**kw)
            r2=B(mk(good),config=cfg2).run(); o2=r2.occupation[-1].numpy()
            full=np.zeros(4); 
            for k,v in zip(good,o2): full["abcd".index(k)]=v
            print(seed,B.__name__,kw.get("optimize_qubit_ordering"),"bad",sd.bad_atoms,"err",np.abs(full-occ).max(), "bits",list(r.bitstrings[-1])[:3], r.atom_order)
        else: print(seed,B.__name__,"bad",sd.bad_atoms,"occ",occ)
