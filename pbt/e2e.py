"""Helpers shared by the adapter-level and end-to-end properties."""
from __future__ import annotations

import logging
import random

import numpy as np


def seed_all(seed: int) -> None:
    import torch

    from pbt import common

    common.reset_globals()
    random.seed(seed)
    np.random.seed(seed % (2**32))
    torch.manual_seed(seed)


def observables(names, evals, pkg, *, n=None, state=None, oper=None, shots=100, per_obs_evals=None):
    """names: list like ['occupation','correlation','energy','energy2','variance','state','bitstrings']"""
    import pulser.backend as pb

    out = []
    for i, nm in enumerate(names):
        ev = per_obs_evals[i] if per_obs_evals else evals
        if nm == "occupation":
            out.append(pb.Occupation(evaluation_times=ev))
        elif nm == "correlation":
            out.append(pb.CorrelationMatrix(evaluation_times=ev))
        elif nm == "energy":
            out.append(pb.Energy(evaluation_times=ev))
        elif nm == "energy2":
            out.append(pb.EnergySecondMoment(evaluation_times=ev))
        elif nm == "variance":
            out.append(pb.EnergyVariance(evaluation_times=ev))
        elif nm == "state":
            out.append(pb.StateResult(evaluation_times=ev))
        elif nm == "bitstrings":
            out.append(pb.BitStrings(evaluation_times=ev, num_shots=shots))
        elif nm == "fidelity":
            out.append(pb.Fidelity(state, evaluation_times=ev))
        elif nm == "expectation":
            out.append(pb.Expectation(oper, evaluation_times=ev))
        elif nm == "entropy":
            from emu_mps import EntanglementEntropy

            out.append(EntanglementEntropy(0, evaluation_times=ev))
        else:
            raise ValueError(nm)
    return out


def sv_config(**kw):
    from emu_sv import SVConfig

    kw.setdefault("gpu", False)
    kw.setdefault("log_level", logging.ERROR)
    return SVConfig(**kw)


def mps_config(**kw):
    from emu_mps import MPSConfig

    kw.setdefault("num_gpus_to_use", 0)
    kw.setdefault("log_level", logging.ERROR)
    return MPSConfig(**kw)


def local_samples_of(samples):
    """SequenceSamples -> (basis, {qid: {amp,det,phase}} as numpy)"""
    nested = samples.to_nested_dict(all_local=True)["Local"]
    assert len(nested) == 1, list(nested)
    (basis, loc), = nested.items()
    return basis, {q: {k: np.real(np.asarray(v, dtype=complex)) for k, v in d.items()} for q, d in loc.items()}


def slm_end_from_sampler(seq, with_modulation=False) -> float:
    """Mask end time as Pulser's own sampler reports it (independent of Sequence._slm_mask_time)."""
    from pulser.sampler import sample

    s = sample(seq, modulation=with_modulation)
    m = getattr(s, "_slm_mask", None)
    if m is None or not m.targets:
        return 0.0
    return float(m.end)


def res_values(res, tag):
    """list of (relative time, value) for a result tag"""
    return list(zip(res.get_result_times(tag), res.get_tagged_results()[tag] if hasattr(res, "get_tagged_results") else getattr(res, tag)))


def to_np(x):
    import torch

    if isinstance(x, torch.Tensor):
        return x.detach().cpu().numpy()
    return np.asarray(x)


class forced_bad_atoms:
    """Harness-owned randomness: while active, pulser's draw `np.random.uniform(size=N) < state_prep_error`
    yields exactly `mask` (True = badly prepared), in register order.  Other calls are passed through."""

    def __init__(self, mask):
        self.mask = [bool(b) for b in mask]
        self.hits = 0

    def __enter__(self):
        self._orig = np.random.uniform
        n = len(self.mask)

        def uniform(*a, **k):
            size = k.get("size", a[2] if len(a) > 2 else None)
            if size == n and not a[:2] and set(k) <= {"size"}:
                self.hits += 1
                return np.array([0.0 if b else 1.0 for b in self.mask])
            return self._orig(*a, **k)

        np.random.uniform = uniform
        return self

    def __exit__(self, *exc):
        np.random.uniform = self._orig
        return False
