"""Build Pulser objects from JSON-able case dictionaries (case = data)."""
from __future__ import annotations

import dataclasses
import functools

import numpy as np


def _wf(w):
    from pulser.waveforms import (BlackmanWaveform, CompositeWaveform, ConstantWaveform,
                                  InterpolatedWaveform, RampWaveform)

    k = w["k"]
    if k == "const":
        return ConstantWaveform(int(w["d"]), float(w["v"]))
    if k == "ramp":
        return RampWaveform(int(w["d"]), float(w["a"]), float(w["b"]))
    if k == "blackman":
        return BlackmanWaveform(int(w["d"]), float(w["area"]))
    if k == "interp":
        return InterpolatedWaveform(int(w["d"]), [float(v) for v in w["vals"]])
    if k == "comp":
        return CompositeWaveform(*[_wf(p) for p in w["parts"]])
    raise ValueError(k)


def wf_duration(w) -> int:
    if w["k"] == "comp":
        return sum(wf_duration(p) for p in w["parts"])
    return int(w["d"])


@functools.lru_cache(maxsize=None)
def device(kind: str, noise_key: str | None = None):
    """'mock' = MockDevice; 'mod' = MockDevice clone whose global channels have a modulation
    bandwidth (pulser needs one for with_modulation to do anything)."""
    from pulser.devices import MockDevice

    if kind == "mock":
        return MockDevice
    if kind == "mod":
        objs = []
        for c in MockDevice.channel_objects:
            if c.addressing == "Global":
                c = dataclasses.replace(c, mod_bandwidth=8.0)
            objs.append(c)
        return dataclasses.replace(MockDevice, name="VerifModDevice", channel_objects=tuple(objs))
    raise ValueError(kind)


def register(case):
    from pulser import Register
    from pulser.register import Register3D

    ids = case["reg"]["ids"]
    coords = case["reg"]["coords"]
    d = {i: tuple(float(x) for x in c) for i, c in zip(ids, coords)}
    if len(coords[0]) == 3:
        return Register3D(d)
    return Register(d)


def sequence(case, dev=None):
    """case keys: reg{ids,coords}, basis ('rydberg'|'XY'), device ('mock'|'mod'),
    local (initial target id or None), dmm ({id: weight} or None), slm ([ids] or None),
    ops: list of {"t":"pulse","ch":"g"|"l","amp":wf,"det":wf,"phase":float}
                 {"t":"pulse2","ch":..,"amp":wf,"det_const":float,"phase":float}
                 {"t":"delay","ch":..,"d":int} {"t":"target","q":id} {"t":"dmm","wf":wf}
                 {"t":"align"}
    """
    from pulser import Pulse, Sequence

    reg = register(case)
    dev = dev or device(case.get("device", "mock"))
    seq = Sequence(reg, dev)
    basis = case.get("basis", "rydberg")
    if basis == "XY":
        seq.declare_channel("g", "mw_global")
        if case.get("mag") is not None:
            seq.set_magnetic_field(*[float(x) for x in case["mag"]])
    else:
        if not case.get("no_global"):
            seq.declare_channel("g", "rydberg_global")
        if case.get("local") is not None:
            seq.declare_channel("l", "rydberg_local", initial_target=case["local"])
        if case.get("dmm"):
            dm = reg.define_detuning_map({k: float(v) for k, v in case["dmm"].items()})
            seq.config_detuning_map(dm, "dmm_0")
    if case.get("slm"):
        seq.config_slm_mask(list(case["slm"]))
    for op in case["ops"]:
        t = op["t"]
        if t == "pulse":
            seq.add(Pulse(_wf(op["amp"]), _wf(op["det"]), float(op["phase"]),
                          post_phase_shift=float(op.get("pps", 0.0))), op["ch"],
                    protocol=op.get("protocol", "min-delay"))
        elif t == "delay":
            seq.delay(int(op["d"]), op["ch"])
        elif t == "target":
            seq.target(op["q"], "l")
        elif t == "dmm":
            seq.add_dmm_detuning(_wf(op["wf"]), "dmm_0")
        elif t == "align":
            chs = [c for c in seq.declared_channels if not c.startswith("dmm")]
            if len(chs) > 1:
                seq.align(*chs)
        else:
            raise ValueError(t)
    return seq


def noise_model(nm: dict | None):
    from pulser import NoiseModel

    if not nm:
        return None
    kw = dict(nm)
    if "eff_noise_opers" in kw:
        kw["eff_noise_opers"] = tuple(np.array(o, dtype=complex) if _is_cplx_list(o) else np.array(o) for o in (_decode(o) for o in kw["eff_noise_opers"]))
        kw["eff_noise_rates"] = tuple(float(r) for r in kw["eff_noise_rates"])
    return NoiseModel(**kw)


def _is_cplx_list(o) -> bool:
    return True


def _decode(o):
    """operators are stored as nested lists of [re, im] pairs."""
    a = np.array(o, dtype=float)
    if a.ndim == 3 and a.shape[-1] == 2:
        return a[..., 0] + 1j * a[..., 1]
    return a


def cplx(o) -> np.ndarray:
    return np.asarray(_decode(o), dtype=complex)
