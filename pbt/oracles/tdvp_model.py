"""Dense reference model of the documented second-order two-site TDVP step (docs/emu_mps/advanced/algorithms.md).

Independent of the code under test: numpy only, dense Hamiltonian, exact matrix exponentials (scipy.linalg.expm) of the
projected operators, SVD-based truncation with the documented rule (drop the smallest singular values while the discarded
weight stays <= precision^2; keep at most max_bond_dim).  Used as a reference *model* where 2-site TDVP is not exact:
the emulator must follow this model to within truncation / Krylov error, so wrong plumbing or a wrong sweep shows up even
though neither agrees with the exact evolution.
"""
from __future__ import annotations

import numpy as np
import scipy.linalg as sla


class MPSModel:
    def __init__(self, factors, d=2):
        self.f = [np.asarray(a, dtype=complex) for a in factors]
        self.n = len(self.f)
        self.d = d

    @classmethod
    def product(cls, n, d=2):
        a = np.zeros((1, d, 1), dtype=complex)
        a[0, 0, 0] = 1
        return cls([a.copy() for _ in range(n)], d)

    @classmethod
    def from_dense(cls, vec, n, d=2):
        rest = np.asarray(vec, dtype=complex).reshape(1, -1)
        out = []
        for _ in range(n - 1):
            left = rest.shape[0]
            u, s, vh = np.linalg.svd(rest.reshape(left * d, -1), full_matrices=False)
            keep = s > 1e-14 * s[0]
            u, s, vh = u[:, keep], s[keep], vh[keep]
            out.append(u.reshape(left, d, -1))
            rest = s[:, None] * vh
        out.append(rest.reshape(rest.shape[0], d, 1))
        m = cls(out, d)
        m.canonicalise(0)
        return m

    def dense(self):
        acc = self.f[0].reshape(self.d, -1)
        for a in self.f[1:]:
            acc = np.tensordot(acc, a, axes=([-1], [0])).reshape(-1, a.shape[2])
        return acc.reshape(-1)

    def canonicalise(self, centre):
        for i in range(centre):
            l, d, r = self.f[i].shape
            q, rm = np.linalg.qr(self.f[i].reshape(l * d, r))
            self.f[i] = q.reshape(l, d, -1)
            self.f[i + 1] = np.tensordot(rm, self.f[i + 1], axes=([1], [0]))
        for i in range(self.n - 1, centre, -1):
            l, d, r = self.f[i].shape
            q, rm = np.linalg.qr(self.f[i].reshape(l, d * r).T)
            self.f[i] = q.T.reshape(-1, d, r)
            self.f[i - 1] = np.tensordot(self.f[i - 1], rm.T, axes=([2], [0]))

    # isometries spanning the left / right environments (requires canonical form around the block)
    def _left_iso(self, j):
        m = np.ones((1, 1), dtype=complex)
        for i in range(j):
            t = np.tensordot(m, self.f[i], axes=([1], [0]))
            m = t.reshape(-1, t.shape[2])
        return m  # (d^j, chi)

    def _right_iso(self, k):
        m = np.ones((1, 1), dtype=complex)
        for i in range(self.n - 1, k - 1, -1):
            t = np.tensordot(self.f[i], m, axes=([2], [0]))
            m = t.reshape(t.shape[0], -1)
        return m  # (chi, d^(n-k))

    def max_bond(self):
        return max(a.shape[2] for a in self.f)


def _expm_herm(Heff, t):
    """exp(-i t Heff) for a (numerically) Hermitian projected Hamiltonian, via eigh; general matrices fall back to expm"""
    if np.abs(Heff - Heff.conj().T).max() <= 1e-10 * max(1.0, np.abs(Heff).max()):
        w, V = np.linalg.eigh((Heff + Heff.conj().T) / 2)
        return (V * np.exp(-1j * t * w)) @ V.conj().T
    return sla.expm(-1j * t * Heff)


def _truncate(s, precision, max_bond):
    """number of singular values kept: drop the smallest while the discarded weight stays <= precision^2"""
    acc = 0.0
    drop = 0
    for x in s[::-1]:
        if acc + x * x > precision * precision:
            break
        acc += x * x
        drop += 1
    keep = max(1, len(s) - drop)
    return min(keep, max_bond)


def tdvp_step(mps: MPSModel, H, tau, precision, max_bond):
    """one second-order two-site TDVP step of duration tau (same units as H^-1); mps centre must be at site 0"""
    n, d = mps.n, mps.d
    if n == 1:
        raise ValueError("needs two sites")

    def evolve_pair(j, t, centre_right):
        L, R = mps._left_iso(j), mps._right_iso(j + 2)
        P = np.kron(np.kron(L, np.eye(d * d)), R.T)
        Heff = P.conj().T @ H @ P
        theta = np.tensordot(mps.f[j], mps.f[j + 1], axes=([2], [0]))  # (l, d, d, r)
        l, _, _, rr = theta.shape
        v = _expm_herm(Heff, t) @ theta.reshape(-1)
        m = v.reshape(l * d, d * rr)
        u, s, vh = np.linalg.svd(m, full_matrices=False)
        k = _truncate(s, precision, max_bond)
        u, s, vh = u[:, :k], s[:k], vh[:k]
        if centre_right:
            mps.f[j] = u.reshape(l, d, k)
            mps.f[j + 1] = (s[:, None] * vh).reshape(k, d, rr)
        else:
            mps.f[j] = (u * s).reshape(l, d, k)
            mps.f[j + 1] = vh.reshape(k, d, rr)

    def evolve_site(j, t):
        L, R = mps._left_iso(j), mps._right_iso(j + 1)
        P = np.kron(np.kron(L, np.eye(d)), R.T)
        Heff = P.conj().T @ H @ P
        a = mps.f[j]
        mps.f[j] = (_expm_herm(Heff, t) @ a.reshape(-1)).reshape(a.shape)

    if n == 2:
        evolve_pair(0, tau, False)
        return
    for j in range(n - 2):
        evolve_pair(j, tau / 2, True)
        evolve_site(j + 1, -tau / 2)
    evolve_pair(n - 2, tau, False)
    for j in range(n - 2, 0, -1):
        evolve_site(j, -tau / 2)
        evolve_pair(j - 1, tau / 2, False)


def run(ref, psi0=None, *, precision, max_bond, perm=None):
    """Evolve along the steps of a pbt.oracles.dense.Reference (its grid and per-step Hamiltonians ref.H[k], which must
    have been built by ref.run()).  perm: internal site order (site k holds atom perm[k]); the Hamiltonian is permuted
    accordingly and states are returned in register order.  Returns {grid index: dense state}."""
    n, d = ref.N, ref.d
    US = 1e-3
    perm = list(range(n)) if perm is None else list(perm)

    def permute_H(H):
        if perm == list(range(n)):
            return H
        t = H.reshape((d,) * (2 * n))
        t = t.transpose(perm + [n + p for p in perm])
        return t.reshape(d**n, d**n)

    def unpermute_vec(v):
        if perm == list(range(n)):
            return v
        t = v.reshape((d,) * n)  # axes: internal sites; internal site k = atom perm[k]
        inv = [perm.index(a) for a in range(n)]
        return t.transpose(inv).reshape(-1)

    def permute_vec(v):
        if perm == list(range(n)):
            return v
        return np.asarray(v).reshape((d,) * n).transpose(perm).reshape(-1)

    mps = MPSModel.product(n, d) if psi0 is None else MPSModel.from_dense(permute_vec(psi0), n, d)
    if psi0 is not None:
        # the backend truncates a user-supplied initial state to (precision, max_bond_dim) and normalises it
        mps.canonicalise(n - 1)
        for i in range(n - 1, 0, -1):
            l, dd, rr = mps.f[i].shape
            u, sv, vh = np.linalg.svd(mps.f[i].reshape(l, dd * rr), full_matrices=False)
            k = _truncate(sv, precision, max_bond)
            mps.f[i] = vh[:k].reshape(k, dd, rr)
            mps.f[i - 1] = np.tensordot(mps.f[i - 1], u[:, :k] * sv[:k], axes=([2], [0]))
        mps.f[0] = mps.f[0] / np.linalg.norm(mps.f[0])
    out = {0: unpermute_vec(mps.dense())}
    bonds = [mps.max_bond()]
    for k in range(len(ref.grid) - 1):
        tau = (ref.grid[k + 1] - ref.grid[k]) * US
        tdvp_step(mps, permute_H(ref.H[k]), tau, precision, max_bond)
        out[k + 1] = unpermute_vec(mps.dense())
        bonds.append(mps.max_bond())
    return out, bonds
