"""Independent Fritsch-Carlson / Moler `pchip` reference (numpy), written from
C. Moler, Numerical Computing with MATLAB, ch. 3 (pchiptx / pchipend)."""
from __future__ import annotations

import numpy as np


def _end(h0, h1, d0, d1):
    d = ((2 * h0 + h1) * d0 - h0 * d1) / (h0 + h1)
    if np.sign(d) != np.sign(d0):
        d = 0.0
    elif np.sign(d0) != np.sign(d1) and abs(d) > 3 * abs(d0):
        d = 3 * d0
    return d


def slopes(x, y):
    x = np.asarray(x, dtype=float)
    y = np.asarray(y, dtype=float)
    h = np.diff(x)
    delta = np.diff(y) / h
    n = len(x)
    d = np.zeros(n)
    if n == 2:
        d[:] = delta[0]
        return d, h, delta
    for k in range(1, n - 1):
        if np.sign(delta[k - 1]) * np.sign(delta[k]) > 0:
            w1 = 2 * h[k] + h[k - 1]
            w2 = h[k] + 2 * h[k - 1]
            d[k] = (w1 + w2) / (w1 / delta[k - 1] + w2 / delta[k])
    d[0] = _end(h[0], h[1], delta[0], delta[1])
    d[-1] = _end(h[-1], h[-2], delta[-1], delta[-2])
    return d, h, delta


def evaluate(x, y, xq, deriv=False):
    x = np.asarray(x, dtype=float)
    y = np.asarray(y, dtype=float)
    xq = np.asarray(xq, dtype=float)
    d, h, delta = slopes(x, y)
    i = np.clip(np.searchsorted(x, xq, side="right") - 1, 0, len(x) - 2)
    t = xq - x[i]
    c = (3 * delta[i] - 2 * d[i] - d[i + 1]) / h[i]
    b = (d[i] - 2 * delta[i] + d[i + 1]) / h[i] ** 2
    if deriv:
        return d[i] + t * (2 * c + 3 * t * b)
    return y[i] + t * (d[i] + t * (c + t * b))
