"""Harness-side models of emu_base.math.krylov_exp (numpy, dense).

`expokit_estimate(...)` recomputes the Expokit local error estimate with the norm of A applied to the
*newest* Krylov vector (what the reference algorithm uses).  `krylov_exp_prev_norm(...)` is a model of the
stopping rule as currently implemented (norm of A applied to the *previous* vector): it is used only to
decide whether an end-to-end deviation is fully explained by that known finding.
"""
from __future__ import annotations

import numpy as np
import scipy.linalg as sla


def torch_expm(M):
    """the small-matrix exponential exactly as the implementation computes it (torch.linalg.matrix_exp).  In torch 2.10
    it carries an error of up to ~1.5e-10 for float64 / complex128 matrices whose 1-norm lies between ~3e-3 and 5e-2
    (measured against mpmath at 50 digits; scipy.linalg.expm is accurate to 1e-16 there)."""
    import torch

    return torch.linalg.matrix_exp(torch.tensor(np.asarray(M, dtype=complex))).numpy()


def krylov_exp_prev_norm(A, v, tol, max_dim=100, hermitian=True, expm=None):
    """Returns (result, converged, iterations).  Mirrors the order of operations of the implementation.
    expm: exponential used for the projected matrix (default: scipy's, accurate; `torch_expm` for a fully faithful model)."""
    expm_ = sla.expm if expm is None else expm
    A = np.asarray(A, dtype=complex)
    v = np.asarray(v, dtype=complex)
    nrm0 = np.linalg.norm(v)
    V = [v / nrm0]
    T = np.zeros((max_dim + 2, max_dim + 2), dtype=complex)
    expd = None
    for j in range(max_dim):
        w = A @ V[-1]
        n = np.linalg.norm(w)
        k0 = max(0, j - 1) if hermitian else 0
        for k in range(k0, j + 1):
            ov = np.vdot(V[k], w)
            T[k, j] = ov
            w = w - ov * V[k]
        n2 = np.linalg.norm(w)
        T[j + 1, j] = n2
        if n2 < tol:
            expd = expm_(T[: j + 1, : j + 1])
            return nrm0 * sum(a * b for a, b in zip(expd[:, 0], V)), True, j + 1
        V.append(w / n2)
        T[j + 2, j + 1] = 1
        expd = expm_(T[: j + 3, : j + 3])
        err1 = abs(expd[j + 1, 0])
        err2 = abs(expd[j + 2, 0] * n)
        err = err1 if err1 < err2 else err1 * err2 / (err1 - err2)
        if err < tol:
            return nrm0 * sum(a * b for a, b in zip(expd[: len(V), 0], V)), True, j + 1
    return nrm0 * sum(a * b for a, b in zip(expd[: len(V), 0], V)), False, max_dim


def expokit_estimate(A, v, m):
    """Expokit's estimate for the order-m Krylov approximation of exp(A)v (relative to |v|), using
    avnorm = |A v_{m+1}|; full Arnoldi orthogonalisation."""
    A = np.asarray(A, dtype=complex)
    v = np.asarray(v, dtype=complex)
    V = [v / np.linalg.norm(v)]
    T = np.zeros((m + 2, m + 2), dtype=complex)
    for j in range(m):
        w = A @ V[-1]
        for k in range(j + 1):
            ov = np.vdot(V[k], w)
            T[k, j] = ov
            w = w - ov * V[k]
        n2 = np.linalg.norm(w)
        T[j + 1, j] = n2
        if n2 < 1e-300:
            return 0.0
        V.append(w / n2)
    avnorm = np.linalg.norm(A @ V[-1])
    T[m + 1, m] = 1
    expd = sla.expm(T[: m + 2, : m + 2])
    err1 = abs(expd[m, 0])
    err2 = abs(expd[m + 1, 0] * avnorm)
    return err1 if err1 < err2 else err1 * err2 / (err1 - err2)


def krylov_approximant(A, v, m):
    """Expokit's *corrected* order-m Krylov approximation of exp(A)v in (numerically) exact arithmetic: full Arnoldi
    with re-orthogonalisation, exponential of the augmented (m+2)x(m+2) matrix, first m+1 basis vectors.  What a
    correct implementation returns when it stops after m operator applications, whatever its stopping rule."""
    A = np.asarray(A, dtype=complex)
    v = np.asarray(v, dtype=complex)
    nrm0 = np.linalg.norm(v)
    V = [v / nrm0]
    T = np.zeros((m + 2, m + 2), dtype=complex)
    for j in range(m):
        w = A @ V[-1]
        for _ in range(2):
            for k in range(j + 1):
                ov = np.vdot(V[k], w)
                T[k, j] += ov
                w = w - ov * V[k]
        n2 = np.linalg.norm(w)
        T[j + 1, j] = n2
        if n2 < 1e-300:
            e = sla.expm(T[: j + 1, : j + 1])[:, 0]
            return nrm0 * sum(a * b for a, b in zip(e, V))
        V.append(w / n2)
    T[m + 1, m] = 1
    e = sla.expm(T)[:, 0]
    return nrm0 * sum(a * b for a, b in zip(e[: m + 1], V))
