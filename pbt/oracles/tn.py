"""Generic tensor-network -> dense contractions written for the harness (numpy only)."""
from __future__ import annotations

import numpy as np


def _np(t):
    return t.detach().cpu().numpy() if hasattr(t, "detach") else np.asarray(t)


def mps_to_dense(factors) -> np.ndarray:
    """factors[i]: (left, phys, right); returns vector with site 0 most significant."""
    acc = _np(factors[0])
    acc = acc.reshape(acc.shape[1], acc.shape[2]) if acc.shape[0] == 1 else acc
    assert _np(factors[0]).shape[0] == 1
    for f in factors[1:]:
        f = _np(f)
        acc = np.tensordot(acc, f, axes=([-1], [0]))  # (..., phys, right)
        acc = acc.reshape(-1, f.shape[2])
    assert acc.shape[1] == 1
    return acc.reshape(-1)


def mpo_to_dense(factors) -> np.ndarray:
    """factors[i]: (left, phys_out, phys_in, right); returns matrix[out, in], site 0 most significant."""
    f0 = _np(factors[0])
    assert f0.shape[0] == 1
    acc = f0[0]  # (out, in, right)
    for f in factors[1:]:
        f = _np(f)
        acc = np.tensordot(acc, f, axes=([-1], [0]))  # (O, I, o, i, right)
        O, I, o, i, r = acc.shape
        acc = acc.transpose(0, 2, 1, 3, 4).reshape(O * o, I * i, r)
    assert acc.shape[2] == 1
    return acc[:, :, 0]


def dense_to_mps(vec, n: int, d: int = 2):
    """exact (untruncated) left-canonical MPS factors of a dense vector, as torch tensors"""
    import torch

    rest = np.asarray(vec, dtype=complex).reshape(1, -1)
    out = []
    for i in range(n - 1):
        left = rest.shape[0]
        m = rest.reshape(left * d, -1)
        u, s, vh = np.linalg.svd(m, full_matrices=False)
        out.append(torch.tensor(u.reshape(left, d, -1)))
        rest = s[:, None] * vh
    out.append(torch.tensor(rest.reshape(rest.shape[0], d, 1)))
    return out


def mpo_times_dense(factors, vec, d: int):
    """apply an MPO (list of (l, out, in, r) factors) to a dense vector without forming the matrix"""
    n = len(factors)
    t = np.asarray(vec, dtype=complex).reshape((1,) + (d,) * n)  # (bond, s0, s1, ..., s_{n-1})
    for i, f in enumerate(factors):
        f = _np(f)  # (l, o, in, r)
        t = np.tensordot(f, t, axes=([0, 2], [0, i + 1]))  # (o, r, rest...)
        t = np.moveaxis(t, [1, 0], [0, i + 1])
    return t.reshape(-1)


def site_op_times_dense(A, site: int, n: int, d: int, vec):
    t = np.asarray(vec, dtype=complex).reshape((d,) * n)
    t = np.tensordot(np.asarray(A, dtype=complex), t, axes=([1], [site]))
    return np.moveaxis(t, 0, site).reshape(-1)


def local_two_site_minima(factors, H, d: int = 2):
    """For an MPS (list of (l, d, r) arrays) and a dense Hamiltonian H in the same site order, return for every
    neighbouring pair (j, j+1) the lowest eigenvalue of the effective two-site Hamiltonian P^dagger H P, where P embeds
    (left Schmidt basis) x (two sites) x (right Schmidt basis).  A fixed point of two-site DMRG has all of them equal to
    its energy (up to truncation)."""
    A = [np.asarray(_np(f), dtype=complex) for f in factors]
    n = len(A)
    # left-orthonormal sweep
    Ls = []
    cur = [a.copy() for a in A]
    for i in range(n - 1):
        l, dd, rr = cur[i].shape
        q, rm = np.linalg.qr(cur[i].reshape(l * dd, rr))
        cur[i] = q.reshape(l, dd, -1)
        cur[i + 1] = np.tensordot(rm, cur[i + 1], axes=([1], [0]))
    left_iso = [np.ones((1, 1), dtype=complex)]  # (d^j, chi_j)
    for i in range(n - 1):
        m = np.tensordot(left_iso[-1], cur[i], axes=([1], [0]))  # (d^i, d, chi)
        left_iso.append(m.reshape(-1, m.shape[2]))
    # right-orthonormal sweep
    cur = [a.copy() for a in A]
    for i in range(n - 1, 0, -1):
        l, dd, rr = cur[i].shape
        q, rm = np.linalg.qr(cur[i].reshape(l, dd * rr).T)  # (d*r, l') , (l', l)
        cur[i] = q.T.reshape(-1, dd, rr)
        cur[i - 1] = np.tensordot(cur[i - 1], rm.T, axes=([2], [0]))
    right_iso = {n: np.ones((1, 1), dtype=complex)}  # (chi_k, d^(n-k)) for sites k..n-1
    for i in range(n - 1, 0, -1):
        m = np.tensordot(cur[i], right_iso[i + 1], axes=([2], [0]))  # (chi, d, d^(n-i-1))
        right_iso[i] = m.reshape(m.shape[0], -1)
    out = []
    for j in range(n - 1):
        L = left_iso[j]  # (d^j, chi_j)
        R = right_iso[j + 2]  # (chi_{j+2}, d^(n-j-2))
        P = np.kron(np.kron(L, np.eye(d * d)), R.T)  # (d^n, chi_j * d^2 * chi_{j+2})
        Heff = P.conj().T @ H @ P
        out.append(float(np.linalg.eigvalsh((Heff + Heff.conj().T) / 2)[0]))
    return out
