"""Dense reference model written from Pulser's conventions; shares no code with the emulators.

Basis order per atom is the emulators' reporting order: index 0 = g / u ('0'), index 1 = r / d ('1'),
index 2 = x (leakage).  Atom 0 of the register is the most significant tensor factor.
Pulser convention (pulser-simulation `Hamiltonian`): coefficient  Omega/2 * exp(-i phi)  multiplies
sigma_gr = |g><r| (sigma_ud in XY), plus h.c.;  -delta multiplies sigma_rr (sigma_dd).
"""
from __future__ import annotations

import numpy as np
import scipy.interpolate as si
import scipy.linalg as sla

US = 1e-3  # ns * rad/us


def merge_times(ts, tol=1e-9):
    out = []
    for t in sorted(ts):
        if not out or t - out[-1] > tol:
            out.append(float(t))
    return out


def emu_grid(T: float, dt: float, rel_times) -> list[float]:
    """{k*dt <= T} U {T} U {e*T}: what the documentation promises as the stepping grid."""
    n = int(np.floor(T / dt + 1e-12))
    ts = [k * dt for k in range(n + 1)] + [float(T)] + [float(e) * T for e in rel_times]
    ts = [min(max(t, 0.0), float(T)) for t in ts]
    # the backends treat times closer than 1e-10 of the duration as one time (documented matching tolerance)
    out = merge_times(ts, tol=max(1e-9, 1.0000001e-10 * float(T)))
    if out and abs(out[-1] - float(T)) <= max(1e-9, 1.0000001e-10 * float(T)):
        out[-1] = float(T)
    return out


def pchip_mid(signal, T: int, mids, clamp=False):
    sig = np.asarray(signal, dtype=float)
    if sig.shape[0] < 2:
        v = np.full(len(mids), sig[0] if sig.shape[0] else 0.0)
    else:
        v = si.PchipInterpolator(np.arange(sig.shape[0], dtype=float), sig, extrapolate=True)(np.asarray(mids, dtype=float))
    if clamp:
        v = np.maximum(v, 0.0)
    return v


def drives(local_samples: dict, qids, grid):
    """local_samples: {qid: {"amp","det","phase"}} numpy-able; returns (nsteps,N) arrays."""
    mids = [(a + b) / 2 for a, b in zip(grid[:-1], grid[1:])]
    N = len(qids)
    amp = np.zeros((len(mids), N))
    det = np.zeros((len(mids), N))
    ph = np.zeros((len(mids), N))
    for j, q in enumerate(qids):
        if q not in local_samples:
            continue
        s = local_samples[q]
        T = len(np.asarray(s["amp"]))
        amp[:, j] = pchip_mid(np.real(np.asarray(s["amp"])), T, mids, clamp=True)
        det[:, j] = pchip_mid(np.real(np.asarray(s["det"])), T, mids)
        ph[:, j] = pchip_mid(np.real(np.asarray(s["phase"])), T, mids)
    return amp, det, ph


def site_op(op, i: int, N: int, d: int = 2):
    return np.kron(np.eye(d**i), np.kron(np.asarray(op, dtype=complex), np.eye(d ** (N - i - 1))))


def pair_op(a, i: int, b, j: int, N: int, d: int = 2):
    """a on site i, b on site j (i < j), identity elsewhere"""
    assert i < j
    mid = np.kron(np.kron(np.asarray(a, dtype=complex), np.eye(d ** (j - i - 1))), np.asarray(b, dtype=complex))
    return np.kron(np.eye(d**i), np.kron(mid, np.eye(d ** (N - j - 1))))


def level_indicator(level: int, N: int, d: int = 2):
    """(N, d**N) array: row i is 1 where atom i is in `level` (atom 0 most significant)."""
    idx = np.arange(d**N)
    out = np.zeros((N, d**N))
    for i in range(N):
        out[i] = ((idx // d ** (N - 1 - i)) % d) == level
    return out


def n_op(d=2):
    m = np.zeros((d, d), dtype=complex)
    m[1, 1] = 1
    return m


def single_site_h(amp, det, ph, d=2, extra=None):
    m = np.zeros((d, d), dtype=complex)
    m[0, 1] = amp / 2 * np.exp(-1j * ph)
    m[1, 0] = amp / 2 * np.exp(1j * ph)
    m[1, 1] = -det
    if extra is not None:
        m = m + extra
    return m


def hamiltonian(kind: str, amp, det, ph, U, d: int = 2, extra=None):
    """kind: 'rydberg' -> sum_{i<j} U_ij n_i n_j ; 'XY' -> sum_{i<j} U_ij (s+_i s-_j + h.c.)"""
    N = len(amp)
    U = np.asarray(U, dtype=float)
    D = d**N
    H = np.zeros((D, D), dtype=complex)
    sp = np.zeros((d, d), dtype=complex)
    sp[1, 0] = 1  # |1><0|
    sm = sp.conj().T
    for i in range(N):
        H += site_op(single_site_h(amp[i], det[i], ph[i], d, extra), i, N, d)
    if kind == "rydberg":
        occ = level_indicator(1, N, d)
        diag = np.zeros(D)
        for i in range(N):
            for j in range(i + 1, N):
                if U[i, j] != 0:
                    diag += U[i, j] * occ[i] * occ[j]
        H[np.arange(D), np.arange(D)] += diag
    else:
        for i in range(N):
            for j in range(i + 1, N):
                if U[i, j] != 0:
                    t = pair_op(sp, i, sm, j, N, d)
                    H += U[i, j] * (t + t.conj().T)
    return H


def liouvillian(H, Ls_full):
    """row-major vec: vec(A rho B) = kron(A, B^T) vec(rho)."""
    D = H.shape[0]
    Id = np.eye(D)
    Lv = -1j * (np.kron(H, Id) - np.kron(Id, H.T))
    for L in Ls_full:
        LdL = L.conj().T @ L
        Lv += np.kron(L, L.conj()) - 0.5 * np.kron(LdL, Id) - 0.5 * np.kron(Id, LdL.T)
    return Lv


def dissipator_super(Ls, d):
    """single-site dissipator superoperator (row-major vec) of a list of d x d jump operators"""
    Id = np.eye(d)
    S = np.zeros((d * d, d * d), dtype=complex)
    for L in Ls:
        L = np.asarray(L, dtype=complex)
        LdL = L.conj().T @ L
        S += np.kron(L, L.conj()) - 0.5 * np.kron(LdL, Id) - 0.5 * np.kron(Id, LdL.T)
    return S


def basis_perm(pulser_eigenbasis, emu_order):
    """P such that  L_emu = P @ L_pulser @ P.T ; P[i_emu, i_pulser] = 1."""
    d = len(emu_order)
    P = np.zeros((d, d))
    for i, s in enumerate(emu_order):
        P[i, list(pulser_eigenbasis).index(s)] = 1
    return P


def emu_order_for(eigenbasis):
    eb = list(eigenbasis)
    # ground-rydberg: |0>=g, |1>=r.  XY: pulser's qubit states are |0>=u, |1>=d (channels/base_channel.py:
    # "u -> 0, d -> 1"; State.infer_one_state -> "d"), and H^D = Omega/2 e^{-i phi}|0><1| + h.c. - delta |1><1|.
    base = ["g", "r"] if "r" in eb else ["u", "d"]
    return base + (["x"] if "x" in eb else [])


def pulser_collapse_ops(lindblad_data, eigenbasis):
    """Collapse operators exactly as Pulser defines them, re-indexed to the emulator order."""
    eb = list(eigenbasis)
    d = len(eb)
    idx = {s: i for i, s in enumerate(eb)}

    def named(name):
        if name in lindblad_data.depolarizing_pauli_2ds:
            return sum(c * named(n) for c, n in lindblad_data.depolarizing_pauli_2ds[name])
        a, b = name[-2], name[-1]
        m = np.zeros((d, d), dtype=complex)
        m[idx[a], idx[b]] = 1
        return m

    P = basis_perm(eb, emu_order_for(eb))
    out = []
    for c, o in lindblad_data.local_collapse_ops:
        m = named(o) if isinstance(o, str) else np.asarray(o, dtype=complex)
        out.append(P @ (c * m) @ P.T)
    return out


class Reference:
    """Piecewise-constant reference evolution of one (noise-free or Lindblad) trajectory."""

    def __init__(self, kind, qids, local_samples, U_of_t, grid, d=2, collapse=None, psi0=None, rho0=None,
                 h_extra=None):
        self.kind, self.qids, self.grid, self.d = kind, list(qids), list(grid), d
        self.N = len(qids)
        self.amp, self.det, self.ph = drives(local_samples, qids, grid)
        self.U_of_t = U_of_t
        self.collapse = collapse or []
        self.h_extra = h_extra
        D = d**self.N
        if self.collapse:
            if rho0 is None:
                rho0 = np.zeros((D, D), dtype=complex)
                rho0[0, 0] = 1
            self.state = np.asarray(rho0, dtype=complex)
        else:
            if psi0 is None:
                psi0 = np.zeros(D, dtype=complex)
                psi0[0] = 1
            self.state = np.asarray(psi0, dtype=complex)
        self.states = {0: self.state.copy()}  # step index -> state at grid[index]
        self.H = {}  # step index k -> H used on [grid[k], grid[k+1]]
        self._full_collapse = [site_op(L, i, self.N, d) for i in range(self.N) for L in self.collapse]

    def h_step(self, k, U=None):
        if U is None:
            U = self.U_of_t(self.grid[k])
        return hamiltonian(self.kind, self.amp[k], self.det[k], self.ph[k], U, self.d, self.h_extra)

    def run(self, step=None):
        """step(A, v) -> exp(A) v ; default scipy expm (exact).  A model of the implementation's Krylov
        stopping rule can be passed to decide whether a deviation is explained by a known finding."""
        st = self.state
        for k in range(len(self.grid) - 1):
            H = self.h_step(k)
            self.H[k] = H
            dt = (self.grid[k + 1] - self.grid[k]) * US
            if self._full_collapse:
                Lv = liouvillian(H, self._full_collapse)
                D = H.shape[0]
                st = (sla.expm(Lv * dt) @ st.reshape(-1) if step is None else step(Lv * dt, st.reshape(-1))).reshape(D, D)
            else:
                st = sla.expm(-1j * H * dt) @ st if step is None else step(-1j * H * dt, st)
            self.states[k + 1] = st.copy()
        return self

    def index_of(self, t, tol=1e-6):
        k = int(np.argmin([abs(g - t) for g in self.grid]))
        if abs(self.grid[k] - t) > tol:
            raise KeyError(t)
        return k

    # ---- observables at grid index k (state after step k-1; H of step k-1, or of step 0 at k=0)
    def h_for_obs(self, k):
        if k == 0:
            return None
        return self.H[k - 1]

    def occupation(self, k):
        s = self.states[k]
        nn = n_op(self.d)
        if s.ndim == 1:
            return np.array([np.vdot(s, site_op(nn, i, self.N, self.d) @ s).real for i in range(self.N)])
        return np.array([np.trace(site_op(nn, i, self.N, self.d) @ s).real for i in range(self.N)])

    def correlation(self, k):
        s = self.states[k]
        nn = n_op(self.d)
        ops = [site_op(nn, i, self.N, self.d) for i in range(self.N)]
        C = np.zeros((self.N, self.N))
        for i in range(self.N):
            for j in range(self.N):
                O = ops[i] @ ops[j]
                C[i, j] = (np.vdot(s, O @ s) if s.ndim == 1 else np.trace(O @ s)).real
        return C

    def expect(self, k, O):
        s = self.states[k]
        return np.vdot(s, O @ s) if s.ndim == 1 else np.trace(O @ s)


def from_sequence(seq, *, with_modulation=False, noise_model=None, n_trajectories=None):
    """(HamiltonianData, list of (local_samples, trajectory, reps))  -- Pulser is the specification."""
    from pulser._hamiltonian_data import HamiltonianData

    hd = HamiltonianData.from_sequence(seq, with_modulation=with_modulation, noise_model=noise_model,
                                       n_trajectories=n_trajectories)
    out = []
    for s in hd.noisy_samples:
        nested = s.samples.to_nested_dict(all_local=True)["Local"]
        assert len(nested) == 1, nested.keys()
        (basis, loc), = nested.items()
        out.append((basis, loc, s.trajectory, s.reps))
    return hd, out


def two_body(matrix) -> np.ndarray:
    """pulser >= 1.9 packs interaction matrices as (1,N,N) / (2,N,N) [XY first]; older: (N,N)."""
    a = np.asarray(matrix.as_array() if hasattr(matrix, "as_array") else matrix, dtype=float)
    return a[0] if a.ndim == 3 else a
