"""Crash / resume harness for emu-mps autosaves (C26, C27).  No source hooks: methods are wrapped at run time and
file-system events are observed through sys.addaudithook."""
from __future__ import annotations

import contextlib
import io
import os
import shutil
import sys
import tempfile


class SimulatedCrash(BaseException):
    """Raised by the harness to stop a run the way a kill -9 would (nothing after the raise point executes)."""


_AUDIT = {"installed": False, "active": False, "dir": None, "events": [], "crash_before": None, "on_crash": None}


def _hook(event, args):
    st = _AUDIT
    if not st["active"]:
        return
    path = None
    if event == "open":
        path, mode = args[0], args[1]
        if not isinstance(path, (str, bytes, os.PathLike)) or mode is None or not any(c in str(mode) for c in "wax+"):
            return
    elif event in ("os.rename", "os.remove", "os.truncate", "os.unlink", "shutil.move", "shutil.copyfile", "os.link", "os.symlink"):
        path = args[0]
    else:
        return
    try:
        p = os.fspath(path)
        if isinstance(p, bytes):
            p = p.decode()
    except TypeError:
        return
    if st["dir"] is None or not os.path.abspath(p).startswith(st["dir"]):
        return
    idx = len(st["events"])
    st["events"].append((event, os.path.basename(p)) + tuple(os.path.basename(os.fspath(a)) for a in args[1:2] if event == "os.rename"))
    if st["crash_before"] is not None and idx == st["crash_before"]:
        st["active"] = False
        if st["on_crash"]:
            st["on_crash"]()
        raise SimulatedCrash(f"before fs event #{idx}: {st['events'][-1]}")


def install_audit():
    if not _AUDIT["installed"]:
        sys.addaudithook(_hook)
        _AUDIT["installed"] = True


@contextlib.contextmanager
def workdir():
    """run inside a fresh directory (autosave files are created in the cwd)"""
    old = os.getcwd()
    d = tempfile.mkdtemp(prefix="verif_autosave_")
    os.chdir(d)
    try:
        yield os.path.realpath(d)
    finally:
        os.chdir(old)
        shutil.rmtree(d, ignore_errors=True)


def run_with_saves(make_backend, *, crash_at_save=None, fs_crash=None, torn_fraction=None):
    """Run `make_backend().run()` with every save_simulation call forced (the wall-clock gate is bypassed; autosave_dt
    stays legal).

    crash_at_save=k   : complete the k-th save (1-based), copy the file aside, raise SimulatedCrash -> returns ("crashed", copy, info)
    fs_crash=(s, j)   : during the s-th save raise SimulatedCrash before its j-th file-system event (0-based)
    torn_fraction=f   : with fs_crash: at the crash, the file opened for writing during this save is truncated to a fraction f
    returns (status, payload, info):  ("finished", results, info) | ("crashed", autosave_path, info)
    info: {"saves": n, "events_per_save": [...], "autosave_file": path}
    """
    import emu_mps.mps_backend_impl as impl_mod

    install_audit()
    cls = impl_mod.MPSBackendImpl
    orig = cls.save_simulation
    info = {"saves": 0, "events_per_save": [], "autosave_file": None, "crash_event": None}
    st = _AUDIT

    def wrapped(self):
        info["saves"] += 1
        k = info["saves"]
        info["autosave_file"] = str(self.autosave_file)
        self.last_save_time = float("-inf")
        st["dir"] = os.path.dirname(os.path.abspath(str(self.autosave_file)))
        st["events"] = []
        st["crash_before"] = None
        st["on_crash"] = None
        if fs_crash is not None and k == fs_crash[0]:
            st["crash_before"] = fs_crash[1]
            if torn_fraction is not None:
                base = str(self.autosave_file)

                def tear():
                    # the file most recently opened for writing in this save
                    opened = [e[1] for e in st["events"][:-1] if e[0] == "open"]
                    if opened:
                        p = os.path.join(st["dir"], opened[-1])
                        if os.path.isfile(p):
                            size = os.path.getsize(p)
                            with open(p, "r+b") as fh:
                                fh.truncate(int(size * torn_fraction))
                st["on_crash"] = tear
        st["active"] = True
        try:
            orig(self)
        finally:
            st["active"] = False
            info["events_per_save"].append(list(st["events"]))
        if crash_at_save is not None and k == crash_at_save:
            copy = str(self.autosave_file) + ".crashcopy"
            shutil.copyfile(str(self.autosave_file), copy)
            raise SimulatedCrash(f"after save #{k}")

    cls.save_simulation = wrapped
    # subclasses that override progress call self.save_simulation -> resolved through the class, fine
    try:
        with contextlib.redirect_stdout(io.StringIO()):
            res = make_backend().run()
        return "finished", res, info
    except SimulatedCrash as e:
        info["crash_event"] = str(e)
        path = (info["autosave_file"] + ".crashcopy") if crash_at_save is not None else info["autosave_file"]
        return "crashed", path, info
    finally:
        cls.save_simulation = orig
        st["active"] = False


def resume(path):
    from emu_mps import MPSBackend

    with contextlib.redirect_stdout(io.StringIO()):
        return MPSBackend.resume(path)


def compare_results(r, ref, got, *, what, tol=1e-9, skip=("statistics",), bit_check=None):
    """same tags, times, atom order and values (bitstrings: totals and an optional deterministic position check)"""
    import numpy as np

    from pbt import e2e

    if tuple(ref.atom_order) != tuple(got.atom_order):
        r.fail("atom_order_differs:" + what, f"{got.atom_order} vs uninterrupted {ref.atom_order}")
    tr, tg = sorted(ref.get_result_tags()), sorted(got.get_result_tags())
    if tr != tg:
        r.fail("tags_differ:" + what, f"{tg} vs {tr}")
        return
    for tag in tr:
        if tag in skip:
            continue
        a, b = ref.get_result_times(tag), got.get_result_times(tag)
        if len(a) != len(b) or any(abs(x - y) > 1e-12 for x, y in zip(a, b)):
            r.fail("times_differ:" + what + ":" + tag, f"{b} vs {a}")
            continue
        va, vb = getattr(ref, tag), getattr(got, tag)
        for t, x, y in zip(a, va, vb):
            if tag.startswith("bitstrings"):
                if sum(x.values()) != sum(y.values()):
                    r.fail("bitstring_total_differs:" + what, f"t={t}: {sum(y.values())} vs {sum(x.values())}")
                if bit_check is not None:
                    msg = bit_check(y)
                    if msg:
                        r.fail("bitstring_positions:" + what, f"t={t}: {msg}")
                continue
            if tag == "state":
                from pbt.oracles import tn

                xa, ya = tn.mps_to_dense(x.factors), tn.mps_to_dense(y.factors)
            else:
                xa, ya = e2e.to_np(x), e2e.to_np(y)
            if xa.shape != ya.shape or float(np.max(np.abs(xa - ya))) > tol * max(1.0, float(np.max(np.abs(xa)))):
                r.fail("values_differ:" + what + ":" + tag,
                       f"t={t}: max diff {float(np.max(np.abs(xa - ya))) if xa.shape == ya.shape else 'shape'}; resumed {np.round(ya, 6).tolist() if ya.size < 12 else '...'} "
                       f"uninterrupted {np.round(xa, 6).tolist() if xa.size < 12 else '...'}")
                break
