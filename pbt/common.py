"""Shared plumbing: where the code under test lives, result records, exception classification."""
from __future__ import annotations

import hashlib
import json
import os
import sys
import traceback

VERIF_DIR = os.path.dirname(os.path.dirname(os.path.abspath(__file__)))
REPO = os.path.realpath(os.environ.get("VERIF_REPO", "/repo"))
_PKGS = ("emu_base", "emu_mps", "emu_sv")


class HarnessError(Exception):
    """The harness (not the code under test) is broken: exit 2, never a violation."""


def setup() -> None:
    """Make `import emu_*` resolve to REPO's working tree and tame torch."""
    if sys.path[0] != REPO:
        sys.path.insert(0, REPO)
    os.environ.setdefault("PASQAL_IO_EMULATORS_VERIF", "1")
    import warnings

    warnings.filterwarnings("ignore")
    import logging

    logging.disable(logging.WARNING)
    import torch

    torch.set_num_threads(1)
    import emu_base
    import emu_mps
    import emu_sv

    for m in (emu_base, emu_mps, emu_sv):
        f = os.path.realpath(m.__file__)
        if not f.startswith(REPO + os.sep):
            raise HarnessError(f"{m.__name__} imported from {f}, expected under {REPO}")


_PULSER_EIGENSTATES = {"ground-rydberg": ["r", "g"], "digital": ["g", "h"], "XY": ["u", "d"]}


def reset_globals() -> None:
    """Reset module-level state between cases.  pulser-core 1.9.1 appends the leakage state 'x' to the module-level
    list pulser.channels.base_channel.EIGENSTATES[...] when a sequence with no used basis (all-zero drive) is sampled
    with with_leakage=True, which would leak into every later case of the same process."""
    try:
        from pulser.channels import base_channel

        for k, v in _PULSER_EIGENSTATES.items():
            if base_channel.EIGENSTATES.get(k) != v:
                base_channel.EIGENSTATES[k][:] = v
    except Exception:  # pragma: no cover
        pass


class Result:
    """Outcome of one generated case."""

    __slots__ = ("violations", "labels", "nontrivial", "key", "discard", "info")

    def __init__(self) -> None:
        self.violations: list[dict] = []
        self.labels: set[str] = set()
        self.nontrivial: bool = False
        self.key = None  # optional canonical key for distinct counting
        self.discard: str | None = None  # reason: case outside the property's domain
        self.info: dict = {}

    def fail(self, kind: str, detail: str = "") -> None:
        self.violations.append({"kind": kind, "detail": str(detail)[:2000]})

    def label(self, *names: str) -> None:
        self.labels.update(names)

    def as_dict(self) -> dict:
        return {
            "violations": self.violations,
            "labels": sorted(self.labels),
            "nontrivial": bool(self.nontrivial),
            "key": self.key,
            "discard": self.discard,
            "info": self.info,
        }


def canon(obj) -> str:
    return json.dumps(obj, sort_keys=True, default=_json_default)


def _json_default(o):
    try:
        import numpy as np

        if isinstance(o, (np.integer,)):
            return int(o)
        if isinstance(o, (np.floating,)):
            return float(o)
        if isinstance(o, np.ndarray):
            return o.tolist()
    except Exception:
        pass
    if isinstance(o, complex):
        return [o.real, o.imag]
    if isinstance(o, (set, frozenset, tuple)):
        return list(o)
    return repr(o)


def case_hash(obj) -> str:
    return hashlib.sha1(canon(obj).encode()).hexdigest()[:16]


def repo_frame(tb) -> str | None:
    """Innermost traceback frame that lies in the code under test, as 'pkg/file.py:func'."""
    found = None
    for fs in traceback.extract_tb(tb):
        fn = os.path.realpath(fs.filename)
        if fn.startswith(REPO + os.sep):
            rel = os.path.relpath(fn, REPO)
            if rel.split(os.sep)[0] in _PKGS:
                found = f"{rel}:{fs.name}"
    return found


def classify_exception(exc: BaseException) -> tuple[str, str]:
    """('crash', kind) if the exception came out of the code under test, else ('harness', text)."""
    frame = repo_frame(exc.__traceback__)
    text = "".join(traceback.format_exception(type(exc), exc, exc.__traceback__))[-3000:]
    if frame is None or isinstance(exc, HarnessError):
        return "harness", text
    return "crash", f"crash:{type(exc).__name__}@{frame}|{text}"


class CutRaised(Exception):
    """Raised by `cut()` when the code under test raised: carries the classified frame."""

    def __init__(self, exc: BaseException):
        self.exc = exc
        self.frame = repo_frame(exc.__traceback__) or "?"
        self.text = "".join(traceback.format_exception(type(exc), exc, exc.__traceback__))[-1500:]
        super().__init__(f"{type(exc).__name__}@{self.frame}: {exc}")

    @property
    def kind(self) -> str:
        return f"crash:{type(self.exc).__name__}@{self.frame}"


def cut(fn, *a, **k):
    """Call code under test; any exception is wrapped so property modules can decide."""
    try:
        return fn(*a, **k)
    except (KeyboardInterrupt, SystemExit):
        raise
    except BaseException as e:  # noqa: BLE001
        raise CutRaised(e) from e
