"""Runner: seeds, sharding over processes, budgets, replay, known findings, evidence, exit codes.

Exit codes: 0 property held on everything explored / 1 violation / 2 harness error.
"""
from __future__ import annotations

import argparse
import importlib
import json
import multiprocessing as mp
import os
import sys
import time
import traceback
from collections import Counter

from pbt import common
from pbt.common import VERIF_DIR, Result, case_hash, canon

KNOWN_FILE = os.path.join(VERIF_DIR, "known_findings.txt")


# ----------------------------------------------------------------------------- known findings
def load_known(prop: str) -> list[dict]:
    """Lines: 'known: property=<id> kind=<kind-prefix> <text>' / 'fixed: property=<id> <commit> <text>'."""
    out = []
    if not os.path.exists(KNOWN_FILE):
        return out
    for line in open(KNOWN_FILE):
        line = line.strip()
        if not line.startswith("known:"):
            continue
        parts = line[len("known:"):].split()
        kv = dict(p.split("=", 1) for p in parts[:2] if "=" in p)
        if kv.get("property") == prop and "kind" in kv:
            out.append({"kind": kv["kind"], "text": " ".join(parts[2:])})
    return out


def known_kinds(prop: str) -> list[str]:
    return [k["kind"] for k in load_known(prop)]


def match_known(kind: str, known: list[dict]) -> dict | None:
    for k in known:
        if kind == k["kind"] or kind.startswith(k["kind"] + ":") or kind.startswith(k["kind"] + "|"):
            return k
    return None


# ----------------------------------------------------------------------------- per-case execution
def run_case(mod, case) -> dict:
    """Run one case.  Exceptions from the code under test -> 'crash' violation; others -> harness."""
    try:
        common.reset_globals()
        res = mod.check_case(case)
        if not isinstance(res, Result):
            raise common.HarnessError("check_case must return Result")
        return res.as_dict()
    except common.CutRaised as e:
        r = Result()
        r.fail(e.kind, e.text)
        r.nontrivial = True
        return r.as_dict()
    except (KeyboardInterrupt, SystemExit):
        raise
    except BaseException as e:  # noqa: BLE001
        what, text = common.classify_exception(e)
        if what == "crash":
            kind, _, detail = text.partition("|")
            r = Result()
            r.fail(kind, detail)
            r.nontrivial = True
            return r.as_dict()
        return {"harness_error": text}


def _load(prop: str):
    common.setup()
    return importlib.import_module(f"pbt.props.{prop.lower()}")


def shard_generate(args: tuple) -> dict:
    prop, tier, seed, shard, n_cases, deadline, only_kind, stop_index = args
    out = {
        "shard": shard, "evaluations": 0, "nontrivial": {}, "labels": Counter(), "samples": [],
        "violations": [], "harness_errors": [], "discarded": Counter(), "budget_exhausted": False,
        "all_hashes": set(), "units": 0,
    }
    try:
        mod = _load(prop)
        import hypothesis
        from hypothesis import HealthCheck, Phase, given, settings

        strat = mod.strategy(tier)
        counter = {"i": 0}

        @hypothesis.seed(seed * 1000 + shard)
        @settings(
            max_examples=n_cases + (1 if shard > 0 else 0), database=None, deadline=None, derandomize=False,
            phases=[Phase.generate], suppress_health_check=list(HealthCheck),
            report_multiple_bugs=False,
        )
        @given(strat)
        def drive(case):
            idx = counter["i"]
            counter["i"] += 1
            if shard > 0 and idx == 0:
                return  # every shard's first example is Hypothesis' minimal one: run it once (shard 0)
            if time.time() > deadline:
                out["budget_exhausted"] = True
                return
            if len(out["harness_errors"]) >= 3:
                return
            d = run_case(mod, case)
            if os.environ.get("VERIF_DUMP_CASES"):  # debugging aid: every generated case with its labels
                with open(os.path.join(os.environ["VERIF_DUMP_CASES"], f"{prop}.{shard}.jsonl"), "a") as fh:
                    fh.write(json.dumps({"case": case, "labels": d.get("labels"), "violations": [v["kind"] for v in d.get("violations", [])]}) + "\n")
            if "harness_error" in d:
                out["harness_errors"].append({"case": case, "error": d["harness_error"]})
                return
            out["evaluations"] += 1
            if d["discard"]:
                out["discarded"][d["discard"]] += 1
                return
            h = case_hash(d["key"] if d["key"] is not None else case)
            out["all_hashes"].add(h)
            out["units"] += int((d.get("info") or {}).get("units", 0))
            out["labels"].update(d["labels"])
            if d["nontrivial"]:
                if h not in out["nontrivial"]:
                    out["nontrivial"][h] = 1
                    if len(out["samples"]) < 2:
                        out["samples"].append({"case": case, "labels": d["labels"], "info": d["info"]})
            for v in d["violations"]:
                if len(out["violations"]) < 200:
                    out["violations"].append({"case": case, "kind": v["kind"], "detail": v["detail"],
                                              "shard": shard, "index": idx})

        drive()
    except BaseException as e:  # noqa: BLE001
        out["harness_errors"].append({"case": None, "error": "".join(traceback.format_exception(type(e), e, e.__traceback__))[-3000:]})
    out["nontrivial"] = list(out["nontrivial"].keys())
    out["all_hashes"] = list(out["all_hashes"])
    out["labels"] = dict(out["labels"])
    out["discarded"] = dict(out["discarded"])
    return out


def shard_cases(args: tuple) -> list[dict]:
    """Run explicit cases (replays, enumerated/exhaustive parts, canonical known instances)."""
    prop, cases = args
    res = []
    try:
        mod = _load(prop)
        for tag, case in cases:
            d = run_case(mod, case)
            d["tag"] = tag
            d["case"] = case
            res.append(d)
    except BaseException as e:  # noqa: BLE001
        res.append({"harness_error": "".join(traceback.format_exception(type(e), e, e.__traceback__))[-3000:], "tag": "load", "case": None})
    return res


def shard_shrink(args: tuple) -> dict:
    """Re-run the shard's generation deterministically up to the failing example, then let
    Hypothesis shrink it for at most `cap` seconds.  Falls back to the unshrunk case."""
    prop, tier, seed, shard, n_cases, index, kind, cap = args
    best = {"case": None, "n": 0}
    try:
        mod = _load(prop)
        import hypothesis
        from hypothesis import HealthCheck, Phase, given, settings

        strat = mod.strategy(tier)
        counter = {"i": 0}
        t_end = [None]

        class Found(Exception):
            pass

        @hypothesis.seed(seed * 1000 + shard)
        @settings(
            max_examples=n_cases + (1 if shard > 0 else 0), database=None, deadline=None, derandomize=False,
            phases=[Phase.generate, Phase.shrink], suppress_health_check=list(HealthCheck),
            report_multiple_bugs=False,
        )
        @given(strat)
        def drive(case):
            idx = counter["i"]
            counter["i"] += 1
            if t_end[0] is None and idx < index:
                return  # same choice sequence as the collecting run: skip cheaply
            if t_end[0] is not None and time.time() > t_end[0]:
                return
            d = run_case(mod, case)
            if os.environ.get("VERIF_DUMP_CASES"):  # debugging aid: every generated case with its labels
                with open(os.path.join(os.environ["VERIF_DUMP_CASES"], f"{prop}.{shard}.jsonl"), "a") as fh:
                    fh.write(json.dumps({"case": case, "labels": d.get("labels"), "violations": [v["kind"] for v in d.get("violations", [])]}) + "\n")
            if "harness_error" in d:
                return
            if any(v["kind"] == kind for v in d["violations"]):
                if t_end[0] is None:
                    t_end[0] = time.time() + cap
                best["case"] = case
                best["n"] += 1
                raise Found()

        try:
            drive()
        except BaseException:  # noqa: BLE001  (Found / Flaky after the cap)
            pass
    except BaseException:  # noqa: BLE001
        pass
    return best


# ----------------------------------------------------------------------------- main
def main(argv=None) -> int:
    ap = argparse.ArgumentParser()
    ap.add_argument("id")
    ap.add_argument("--tier", default=os.environ.get("VERIF_TIER", "quick"), choices=["quick", "thorough"])
    ap.add_argument("--replay", default=None)
    ap.add_argument("--cases", type=int, default=None)
    ap.add_argument("--shards", type=int, default=None)
    ap.add_argument("--wall", type=float, default=None)
    ap.add_argument("--no-shrink", action="store_true")
    ap.add_argument("--no-evidence", action="store_true")
    a = ap.parse_args(argv)
    prop = a.id.upper()
    seed = int(os.environ.get("VERIF_SEED", "1") or "1")
    t0 = time.time()

    try:
        mod = _load(prop)
    except BaseException as e:  # noqa: BLE001
        traceback.print_exc()
        print(f"HARNESS-ERROR property={prop} cannot load: {e}")
        return 2

    known = load_known(prop)

    # ---------------------------------------------------------------- single replay
    if a.replay:
        obj = json.load(open(a.replay))
        case = obj["case"] if isinstance(obj, dict) and "case" in obj and "property" in obj else obj
        d = run_case(mod, case)
        if "harness_error" in d:
            print(d["harness_error"])
            print(f"HARNESS-ERROR property={prop}")
            return 2
        rc = 0
        for v in d["violations"]:
            k = match_known(v["kind"], known)
            if k:
                print(f"KNOWN-FINDING: property={prop} {k['kind']} {k['text']}")
            else:
                print(f"  kind={v['kind']}\n  detail={v['detail'][:1500]}")
                print(f"VIOLATION property={prop} replay={a.replay}")
                rc = 1
        if not d["violations"]:
            print(f"replay ok: property={prop} no violation (labels={d['labels']})")
        return rc

    bud = mod.budget(a.tier)
    n_cases = a.cases if a.cases is not None else bud["cases"]
    shards = a.shards if a.shards is not None else bud.get("shards", 16)
    shards = max(1, min(shards, n_cases)) if n_cases > 0 else 1
    wall = a.wall if a.wall is not None else bud.get("wall", 900)
    deadline = t0 + wall

    ctx = mp.get_context("spawn")
    pool = ctx.Pool(min(16, max(shards, 1)))
    violations: list[dict] = []
    harness_errors: list = []
    evaluations = 0
    nontrivial: set[str] = set()
    labels: Counter = Counter()
    samples: list = []
    discarded: Counter = Counter()
    budget_exhausted = False
    explicit_n = 0
    exhaustive_note = None
    units = 0

    try:
        # ------------------------------------------------------------ explicit cases first
        explicit: list[tuple[str, object]] = []
        rdir = os.path.join(VERIF_DIR, "replays", prop)
        if os.path.isdir(rdir):
            for fn in sorted(os.listdir(rdir)):
                if fn.endswith(".json"):
                    obj = json.load(open(os.path.join(rdir, fn)))
                    explicit.append((f"replays/{prop}/{fn}", obj["case"] if isinstance(obj, dict) and "case" in obj and "property" in obj else obj))
        if hasattr(mod, "fixed_cases"):
            explicit += [(f"fixed:{i}", c) for i, c in enumerate(mod.fixed_cases(a.tier))]
        if hasattr(mod, "enumerate_cases"):
            en = list(mod.enumerate_cases(a.tier))
            exhaustive_note = getattr(mod, "EXHAUSTIVE_NOTE", None)
            explicit += [(f"enum:{i}", c) for i, c in enumerate(en)]
        async_explicit = None
        if explicit:
            nchunk = min(16, len(explicit))
            chunks = [explicit[i::nchunk] for i in range(nchunk)]
            async_explicit = pool.map_async(shard_cases, [(prop, ch) for ch in chunks])

        per = [n_cases // shards + (1 if i < n_cases % shards else 0) for i in range(shards)] if n_cases > 0 else []
        jobs = [(prop, a.tier, seed, i, per[i], deadline, None, None) for i in range(len(per)) if per[i] > 0]
        gen_results = pool.map(shard_generate, jobs) if jobs else []

        if async_explicit is not None:
            for chunk in async_explicit.get():
                for d in chunk:
                    if "harness_error" in d:
                        harness_errors.append({"case": d.get("case"), "error": d["harness_error"], "tag": d.get("tag")})
                        continue
                    explicit_n += 1
                    evaluations += 1
                    if d["discard"]:
                        discarded[d["discard"]] += 1
                        continue
                    labels.update(d["labels"])
                    units += int((d.get("info") or {}).get("units", 0))
                    if d["nontrivial"]:
                        nontrivial.add(case_hash(d["key"] if d["key"] is not None else d["case"]))
                    for v in d["violations"]:
                        violations.append({"case": d["case"], "kind": v["kind"], "detail": v["detail"], "shard": None, "index": None, "tag": d["tag"]})

        for g in gen_results:
            evaluations += g["evaluations"]
            units += g.get("units", 0)
            nontrivial.update(g["nontrivial"])
            labels.update(g["labels"])
            samples += g["samples"]
            discarded.update(g["discarded"])
            violations += g["violations"]
            harness_errors += g["harness_errors"]
            budget_exhausted |= g["budget_exhausted"]

        # ------------------------------------------------------------ classify
        buckets: dict[str, list[dict]] = {}
        for v in violations:
            buckets.setdefault(v["kind"], []).append(v)
        known_hit: dict[str, dict] = {}
        new_buckets: dict[str, list[dict]] = {}
        for kind, vs in buckets.items():
            k = match_known(kind, known)
            if k:
                known_hit.setdefault(k["kind"], k)
            else:
                new_buckets[kind] = vs

        # ------------------------------------------------------------ shrink + write replays
        replay_paths = []
        if new_buckets:
            odir = os.path.join(VERIF_DIR, "out", "violations", prop)
            os.makedirs(odir, exist_ok=True)
            todo = []
            for kind, vs in list(new_buckets.items())[:6]:
                v0 = vs[0]
                if not a.no_shrink and v0.get("shard") is not None:
                    cap = 45 if a.tier == "quick" else 180
                    todo.append((kind, pool.apply_async(shard_shrink, ((prop, a.tier, seed, v0["shard"], per[v0["shard"]], v0["index"], kind, cap),))))
            shrunk = {}
            for kind, fut in todo:
                try:
                    b = fut.get(timeout=400)
                    if b and b.get("case") is not None:
                        shrunk[kind] = b["case"]
                except Exception:
                    pass
            for kind, vs in new_buckets.items():
                v0 = vs[0]
                case = shrunk.get(kind, v0["case"])
                path = os.path.join(odir, f"{case_hash([kind, case])}.json")
                with open(path, "w") as f:
                    json.dump({"property": prop, "kind": kind, "detail": v0["detail"], "count": len(vs),
                               "shrunk": kind in shrunk, "seed": seed, "tier": a.tier, "case": case,
                               "unshrunk_case": v0["case"]}, f, indent=1, default=common._json_default)
                replay_paths.append((kind, path, v0["detail"], len(vs)))
    finally:
        pool.terminate()
        pool.join()

    wall_s = time.time() - t0

    # ---------------------------------------------------------------- evidence
    if not a.no_evidence:
        picked = samples[:: max(1, len(samples) // 5)][:5] if samples else []
        cov = {
            "evaluations": int(evaluations),
            "distinct_nontrivial": int(len(nontrivial)),
            "rule": getattr(mod, "RULE", ""),
            "samples": picked,
            "classes": dict(sorted(labels.items())),
            "explicit_cases": explicit_n,
            "generated_cases_requested": n_cases,
            "discarded_out_of_domain": dict(discarded),
            "budget_exhausted": bool(budget_exhausted),
            "known_findings_reproduced": sorted(known_hit.keys()),
            "excluded_known": {k["kind"]: k["text"] for k in known},
            "tolerances": getattr(mod, "TOL", {}),
            "violation_kinds": {k: len(v) for k, v in buckets.items()} if violations else {},
            "harness_errors": len(harness_errors),
        }
        if units:
            cov[getattr(mod, "UNITS_NAME", "units_explored")] = int(units)
        if exhaustive_note:
            cov["exhaustive_part"] = exhaustive_note
        if getattr(mod, "EXHAUSTIVE", False):
            cov["exhaustive"] = True
        ev = {
            "property_id": prop, "tier": a.tier, "seed": seed,
            "level": getattr(mod, "LEVEL", "exploration"),
            "coverage": cov,
            "assumptions": list(getattr(mod, "ASSUMPTIONS", [])),
            "wall_s": round(wall_s, 2),
            "violations": len(new_buckets) if violations else 0,
        }
        os.makedirs(os.path.join(VERIF_DIR, "evidence"), exist_ok=True)
        with open(os.path.join(VERIF_DIR, "evidence", f"{prop}.json"), "w") as f:
            json.dump(ev, f, indent=1, default=common._json_default)

    # ---------------------------------------------------------------- report
    print(f"[{prop}] tier={a.tier} seed={seed} evaluations={evaluations} distinct_nontrivial={len(nontrivial)} "
          f"discarded={sum(discarded.values())} wall={wall_s:.1f}s budget_exhausted={budget_exhausted}")
    if labels:
        tot = max(1, evaluations)
        print("  classes: " + ", ".join(f"{k}={v}" for k, v in sorted(labels.items())))
        low = [k for k, v in labels.items() if v / tot < 0.02 and not k.startswith("_")]
        if low:
            print("  WARNING rare classes (<2%): " + ", ".join(sorted(low)))
    if harness_errors:
        print(harness_errors[0]["error"])
        print(f"HARNESS-ERROR property={prop} ({len(harness_errors)} harness errors; first shown above; case={canon(harness_errors[0].get('case'))[:600]})")
        return 2
    for kk, k in known_hit.items():
        print(f"KNOWN-FINDING: property={prop} {kk} {k['text']}")
    if replay_paths:
        for kind, path, detail, cnt in replay_paths:
            print(f"  bucket kind={kind} count={cnt}\n    detail={detail[:800]}")
            print(f"VIOLATION property={prop} replay={os.path.relpath(path, VERIF_DIR)}")
        return 1
    if len(nontrivial) < 2:
        print(f"HARNESS-ERROR property={prop} fewer than 2 distinct non-trivial cases: vacuous run")
        return 2
    print(f"OK property={prop}")
    return 0


if __name__ == "__main__":
    sys.exit(main())
