"""Shared Hypothesis strategies.  Everything they produce is JSON-able (case = data)."""
from __future__ import annotations

import math

from hypothesis import strategies as st

ID_POOL = ["q0", "q1", "q2", "q3", "q4", "q5", "q6", "q7", "q8", "q9", "a", "b", "zz", "Q", "x7", "m",
           "k2", "w", "r1", "g0", "u", "d", "atom", "z", "y9", "p", "n3", "h", "e", "c", "f", "t"]


def half(lo: float, hi: float):
    """floats on a 0.5 grid in [lo, hi]"""
    return st.integers(int(math.ceil(lo * 2)), int(math.floor(hi * 2))).map(lambda k: k / 2)


@st.composite
def registers(draw, n_min=1, n_max=8, dmin=5.0, dmax=12.0, shapes=("chain", "ring", "grid", "jitter"),
              shuffle_ids=True, dim3=False):
    n = draw(st.integers(n_min, n_max))
    shape = draw(st.sampled_from(shapes))
    s = draw(half(dmin, dmax))
    coords = []
    if n == 1:
        coords = [[0.0, 0.0]]
    elif shape == "chain":
        coords = [[i * s, 0.0] for i in range(n)]
    elif shape == "ring" and n >= 3:
        r = s / (2 * math.sin(math.pi / n))
        coords = [[round(r * math.cos(2 * math.pi * i / n), 6), round(r * math.sin(2 * math.pi * i / n), 6)] for i in range(n)]
    elif shape == "grid" or (shape == "ring" and n < 3):
        cols = draw(st.integers(1, n))
        coords = [[(i % cols) * s, (i // cols) * s] for i in range(n)]
    else:  # jittered grid: cell size s + 2, jitter <= 1  =>  distance >= s
        cols = draw(st.integers(1, n))
        cell = s + 2.0
        for i in range(n):
            jx = draw(half(-1, 1))
            jy = draw(half(-1, 1))
            coords.append([(i % cols) * cell + jx, (i // cols) * cell + jy])
    if dim3:
        coords = [c + [draw(half(-3, 3)) if n > 1 else 0.0] for c in coords]
        # keep pairwise distance: z jitter can only increase distances
    ids = list(draw(st.permutations(ID_POOL[: max(n, 10)]))[:n]) if shuffle_ids else [f"q{i}" for i in range(n)]
    order = list(draw(st.permutations(list(range(n))))) if shuffle_ids else list(range(n))
    coords = [coords[i] for i in order]
    return {"ids": ids, "coords": coords, "shape": shape, "spacing": s}


def _amp_val(maxv=12.0):
    return st.one_of(st.sampled_from([0.0, 1.0, 2.0 * math.pi]), st.floats(0.0, maxv, allow_nan=False).map(lambda v: round(v, 6)))


def _det_val(maxv=15.0):
    return st.one_of(st.sampled_from([0.0, -1.0, 5.0]), st.floats(-maxv, maxv, allow_nan=False).map(lambda v: round(v, 6)))


@st.composite
def amp_waveform(draw, d, kinds=("const", "ramp", "blackman", "interp", "comp")):
    k = draw(st.sampled_from(kinds))
    if k == "comp" and d < 8:
        k = "const"
    if k == "blackman" and d < 4:  # pulser's BlackmanWaveform yields NaN samples for tiny durations
        k = "ramp"
    if k == "const":
        return {"k": "const", "d": d, "v": draw(_amp_val())}
    if k == "ramp":
        return {"k": "ramp", "d": d, "a": draw(_amp_val()), "b": draw(_amp_val())}
    if k == "blackman":
        return {"k": "blackman", "d": d, "area": draw(st.floats(0.1, 2 * math.pi).map(lambda v: round(v, 6)))}
    if k == "interp":
        m = draw(st.integers(2, 5))
        return {"k": "interp", "d": d, "vals": [draw(_amp_val()) for _ in range(m)]}
    d1 = draw(st.integers(4, d - 4))
    sub = ("const", "ramp", "blackman", "interp")
    return {"k": "comp", "parts": [draw(amp_waveform(d1, sub)), draw(amp_waveform(d - d1, sub))]}


@st.composite
def det_waveform(draw, d, kinds=("const", "ramp", "interp", "comp"), neg_only=False):
    val = _det_val() if not neg_only else st.floats(-20.0, 0.0).map(lambda v: round(v, 6))
    k = draw(st.sampled_from(kinds))
    if k == "comp" and d < 8:
        k = "const"
    if k == "const":
        return {"k": "const", "d": d, "v": draw(val)}
    if k == "ramp":
        return {"k": "ramp", "d": d, "a": draw(val), "b": draw(val)}
    if k == "interp":
        m = draw(st.integers(2, 5))
        return {"k": "interp", "d": d, "vals": [draw(val) for _ in range(m)]}
    d1 = draw(st.integers(2, d - 2))
    sub = ("const", "ramp", "interp")
    return {"k": "comp", "parts": [draw(det_waveform(d1, sub, neg_only)), draw(det_waveform(d - d1, sub, neg_only))]}


def phases():
    return st.one_of(st.sampled_from([0.0, 0.0, math.pi / 2, math.pi, 1.3]),
                     st.floats(0.0, 2 * math.pi, exclude_max=True).map(lambda v: round(v, 6)))


@st.composite
def durations(draw, lo=4, hi=120):
    return draw(st.one_of(st.integers(lo, min(hi, 24)), st.integers(lo, hi)))


@st.composite
def seq_cases(draw, n_min=1, n_max=6, basis="rydberg", allow_local=True, allow_dmm=True, allow_slm=True,
              allow_mod=False, max_ops=4, dur_hi=120, dmin=5.0, dmax=12.0, zero_phase_bias=False,
              amp_kinds=("const", "ramp", "blackman", "interp", "comp"),
              det_kinds=("const", "ramp", "interp", "comp"), allow_no_global=False):
    """A full sequence description understood by pbt.build.sequence."""
    reg = draw(registers(n_min, n_max, dmin=dmin, dmax=dmax))
    ids = reg["ids"]
    n = len(ids)
    case = {"reg": reg, "basis": basis, "device": "mock", "local": None, "dmm": None, "slm": None, "ops": []}
    if allow_no_global and basis == "rydberg" and n >= 2 and draw(st.integers(0, 5)) == 0:
        # only a local channel is declared: the atoms it never targets are not addressed by any channel at all
        case["local"] = draw(st.sampled_from(ids))
        case["no_global"] = True
        ops = []
        for _ in range(draw(st.integers(1, max_ops))):
            c = draw(st.sampled_from(["lp", "lp", "lt", "ld"]))
            d = draw(durations(4, dur_hi))
            if c == "lp":
                ops.append({"t": "pulse", "ch": "l", "amp": draw(amp_waveform(d, amp_kinds)), "det": draw(det_waveform(d, det_kinds)),
                            "phase": 0.0 if (zero_phase_bias and draw(st.booleans())) else draw(phases())})
            elif c == "ld":
                ops.append({"t": "delay", "ch": "l", "d": d})
            else:
                ops.append({"t": "target", "q": draw(st.sampled_from(ids))})
        if not any(o["t"] == "pulse" for o in ops):
            d = draw(durations(4, dur_hi))
            ops.append({"t": "pulse", "ch": "l", "amp": draw(amp_waveform(d, amp_kinds)), "det": draw(det_waveform(d, det_kinds)), "phase": draw(phases())})
        case["ops"] = ops
        return case
    use_mod = allow_mod and draw(st.booleans())
    if use_mod:
        case["device"] = "mod"
    if basis == "rydberg":
        if allow_local and draw(st.booleans()):
            case["local"] = draw(st.sampled_from(ids))
        if allow_dmm and draw(st.booleans()):
            k = draw(st.integers(1, n))
            sub = draw(st.permutations(ids))[:k]
            case["dmm"] = {q: draw(st.sampled_from([1.0, 0.5, 0.25, 0.0, 0.8])) for q in sub}
            if all(v == 0.0 for v in case["dmm"].values()):
                case["dmm"][sub[0]] = 1.0
    if allow_slm and not use_mod and n >= 2 and draw(st.integers(0, 2)) == 0:
        k = draw(st.integers(1, n - 1))
        case["slm"] = sorted(draw(st.permutations(ids))[:k])
    n_ops = draw(st.integers(1, max_ops))
    ops = []
    have_global_pulse = False
    for _ in range(n_ops):
        choices = ["gp", "gp", "gd"]
        if case["local"] is not None:
            choices += ["lp", "lp", "lt", "ld", "al"]
        if case["dmm"] is not None:
            choices += ["dm"]
        c = draw(st.sampled_from(choices))
        d = draw(durations(4, dur_hi))
        if c in ("gp", "lp"):
            ph = 0.0 if (zero_phase_bias and draw(st.booleans())) else draw(phases())
            ops.append({"t": "pulse", "ch": "g" if c == "gp" else "l", "amp": draw(amp_waveform(d, amp_kinds)),
                        "det": draw(det_waveform(d, det_kinds)), "phase": ph})
            have_global_pulse |= c == "gp"
        elif c == "gd":
            ops.append({"t": "delay", "ch": "g", "d": d})
        elif c == "ld":
            ops.append({"t": "delay", "ch": "l", "d": d})
        elif c == "lt":
            ops.append({"t": "target", "q": draw(st.sampled_from(ids))})
        elif c == "al":
            ops.append({"t": "align"})
        elif c == "dm":
            ops.append({"t": "dmm", "wf": draw(det_waveform(d, ("const", "ramp", "interp"), neg_only=True))})
    if not any(o["t"] == "pulse" for o in ops):
        d = draw(durations(4, dur_hi))
        ops.append({"t": "pulse", "ch": "g", "amp": draw(amp_waveform(d, amp_kinds)), "det": draw(det_waveform(d, det_kinds)), "phase": draw(phases())})
    case["ops"] = ops
    return case


def eval_time_sets(max_n=4):
    """relative evaluation times in [0,1]: rationals, linspace-style, irrational, 0 and 1."""
    frac = st.one_of(
        st.sampled_from([0.0, 1.0, 0.5, 1 / 3, 0.25, 0.1, 0.3, 0.7, 2 / 3, 0.9]),
        st.integers(0, 1000).map(lambda k: k / 1000),
        st.floats(0.0, 1.0).map(lambda v: round(v, 9)),
        st.sampled_from([1 / math.pi, math.sqrt(0.5), math.e / 3]),
    )
    return st.lists(frac, min_size=1, max_size=max_n, unique_by=lambda v: round(v, 6)).map(sorted)


def dts():
    return st.one_of(st.sampled_from([1, 2, 3, 5, 7, 10, 10, 10, 13, 25]), st.sampled_from([0.5, 2.5, 7.5, 10.0, 4.0]))
