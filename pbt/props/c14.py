"""C14: observables are recorded exactly once per requested time, at no other time, from the state at that time."""
from __future__ import annotations

import math

from hypothesis import strategies as st

from pbt import build, e2e
from pbt.common import Result, cut

ID = "C14"
LEVEL = "exploration"
TOL = {"time_match_rel": 1e-9, "value": "1e-6 (emu-sv); C02 tolerance + 1e-6 (emu-mps, two atoms: TDVP exact); neighbouring times differ by >1e-3"}
RULE = ("two-atom sequences (one or two pulses with a detuning ramp so that values at neighbouring times differ), duration "
        "4..1500 ns, modulation on/off; dt dividing / not dividing / <1 / > duration; three observables whose evaluation "
        "times are drawn per observable or left to the config default from: rationals k/m, linspace grids, irrational "
        "fractions, 0 and 1, times within 1e-11 / 1e-9 / 0.2-0.45 ns of a dt grid point, of a config-default time or of "
        "each other (pulser's own uniqueness rule respected); emu-sv, emu-mps TDVP and DMRG; oracle: for every "
        "observable tag the recorded times equal the requested ones (matched within 1e-9 relative), one entry each, "
        "strictly increasing, nothing else; the value at each time equals the dense reference at that time (not at a "
        "neighbouring grid point); non-trivial = >=1 requested time off the dt grid or within 0.5 ns of another "
        "target time; distinct = case hash")
ASSUMPTIONS = ["exact float identity of recorded times is not demanded (1e-9 relative)",
               "DMRG runs: only the time clauses are applied (values are ground states, C09's business)"]


def budget(tier):
    return {"cases": 480 if tier == "quick" else 6000, "shards": 16, "wall": 900 if tier == "quick" else 3300}


@st.composite
def _times(draw, T, dt, anchors):
    """a sorted list of relative times, deliberately close to grid points / anchors"""
    out = []
    for _ in range(draw(st.integers(1, 4))):
        kind = draw(st.sampled_from(["rational", "linspace", "irr", "edge", "near_grid", "near_anchor", "grid"]))
        if kind == "rational":
            m = draw(st.integers(2, 12))
            v = draw(st.integers(0, m)) / m
        elif kind == "linspace":
            import numpy as np

            m = draw(st.integers(3, 11))
            v = float(np.linspace(0, 1, m)[draw(st.integers(0, m - 1))])
        elif kind == "irr":
            v = draw(st.sampled_from([1 / math.pi, math.sqrt(0.5), math.e / 3, 0.1 * math.pi]))
        elif kind == "edge":
            v = draw(st.sampled_from([0.0, 1.0]))
        elif kind == "grid":
            nmax = int(T // dt)
            v = draw(st.integers(0, max(nmax, 0))) * dt / T
        else:
            if kind == "near_anchor" and anchors:
                base = draw(st.sampled_from(anchors))
            else:
                nmax = int(T // dt)
                base = draw(st.integers(0, max(nmax, 0))) * dt / T
            off_ns = draw(st.sampled_from([1e-11 * T, 1e-9 * T, 0.2, 0.3, 0.45, 0.6, 1.3])) * draw(st.sampled_from([1, -1]))
            v = base + off_ns / T
        v = min(max(v, 0.0), 1.0)
        out.append(v)
    out = sorted(set(out))
    # pulser requires strictly increasing, distinct evaluation times
    res = []
    for v in out:
        if not res or v - res[-1] > 1e-12:
            res.append(v)
    return res


@st.composite
def _cases(draw):
    mod = draw(st.integers(0, 3)) == 0
    d1 = draw(st.one_of(st.integers(4, 40), st.integers(4, 400), st.integers(4, 1500)))
    two = draw(st.booleans())
    d2 = draw(st.integers(4, 60)) if two else 0
    T0 = d1 + d2
    dt = draw(st.one_of(st.sampled_from([1, 2, 3, 5, 7, 10, 25]), st.sampled_from([0.5, 2.5, 7.5, 0.25]), st.just(T0 + 3),
                        st.just(T0 / 4), st.just(T0 / 3)))
    if T0 / dt > 500:
        dt = max(dt, math.ceil(T0 / 500))
    backend = draw(st.sampled_from(["sv", "sv", "mps", "mps", "dmrg"]))
    default = draw(st.one_of(st.none(), _times(T0, dt, [])))
    anchors = list(default or [])
    evs = []
    for _ in range(3):
        e = draw(st.one_of(st.none() if default is not None else st.nothing(), _times(T0, dt, anchors))) if default is not None \
            else draw(_times(T0, dt, anchors))
        if e:
            anchors = anchors + list(e)
        evs.append(e)
    return {"d1": d1, "d2": d2, "mod": mod, "dt": dt, "backend": backend, "default": default, "evals": evs,
            "amp": draw(st.sampled_from([2.0, 5.0, 9.0])), "seed": draw(st.integers(0, 2**20))}


def strategy(tier):
    return _cases()


def _seqc(case):
    ops = [{"t": "pulse", "ch": "g", "amp": {"k": "const", "d": case["d1"], "v": case["amp"]},
            "det": {"k": "ramp", "d": case["d1"], "a": -6.0, "b": 8.0}, "phase": 0.0}]
    if case["d2"]:
        ops.append({"t": "pulse", "ch": "g", "amp": {"k": "ramp", "d": case["d2"], "a": case["amp"], "b": 0.0},
                    "det": {"k": "const", "d": case["d2"], "v": 8.0}, "phase": 1.0})
    return {"reg": {"ids": ["a", "b"], "coords": [[0.0, 0.0], [7.5, 0.0]]}, "basis": "rydberg", "device": "mod" if case["mod"] else "mock",
            "local": None, "dmm": None, "slm": None, "ops": ops}


def check_case(case) -> Result:
    import contextlib
    import io
    import warnings

    import numpy as np
    import pulser.backend as pb

    from pbt.props import c01

    r = Result()
    e2e.seed_all(case["seed"])
    seqc = _seqc(case)
    seq = build.sequence(seqc)
    mod = case["mod"]
    T = float(seq.get_duration(include_fall_time=mod))
    dt = float(case["dt"])
    # the generator placed times relative to the un-modulated duration; they are legal relative times for any duration
    backend = case["backend"]
    classes = [pb.Occupation, pb.Energy, pb.CorrelationMatrix]
    tags = ["occupation", "energy", "correlation_matrix"]
    obs = [cls(evaluation_times=ev) for cls, ev in zip(classes, case["evals"])]
    kw = dict(dt=case["dt"], observables=obs, with_modulation=mod)
    if case["default"] is not None:
        kw["default_evaluation_times"] = case["default"]
    ktol = 1e-10
    try:
        with warnings.catch_warnings():
            warnings.simplefilter("ignore")
            if backend == "sv":
                cfg = e2e.sv_config(krylov_tolerance=ktol, **kw)
            else:
                from emu_mps.solver import Solver

                cfg = e2e.mps_config(precision=1e-8, solver=Solver.DMRG if backend == "dmrg" else Solver.TDVP, **kw)
    except Exception as e:  # noqa: BLE001  pulser's own validation refuses this set of times: outside the domain
        r.discard = f"config rejected: {type(e).__name__}"
        return r
    def dedupe(ts):
        """requested times closer than the backends' matching tolerance (1e-10 relative) are one time"""
        out = []
        for t in sorted(ts):
            if not out or t - out[-1] > 1e-10:
                out.append(t)
        return out

    requested = [dedupe(ev) if ev is not None else dedupe(case["default"]) for ev in case["evals"]]
    # the config's default times only matter when some observable relies on them
    all_rel = sorted({e for ev in requested for e in ev})
    grid_pts = [k * dt for k in range(int(math.floor(T / dt + 1e-12)) + 1)] + [T]
    targets = sorted(set(grid_pts) | {e * T for e in all_rel})
    off_grid = [e for e in all_rel if min(abs(e * T - g) for g in grid_pts) > 1e-6]
    close_pairs = [(a, b) for a, b in zip(targets[:-1], targets[1:]) if 1e-9 * T < b - a < 0.5]
    r.nontrivial = bool(off_grid or close_pairs)
    r.label(backend, "mod" if mod else "nomod", "default_times" if case["default"] is not None else "no_default",
            "dt<1" if dt < 1 else ("dt>T" if dt > T else "dt_mid"))
    if close_pairs:
        r.label("targets_within_0.5ns")
    if any(ev is None for ev in case["evals"]):
        r.label("observable_uses_default")
    if backend == "sv":
        from emu_sv import SVBackend as B
    else:
        from emu_mps import MPSBackend as B
    with contextlib.redirect_stdout(io.StringIO()):
        res = cut(B(seq, config=cfg).run)
    # reference values (dense chain on the same grid)
    ref = None
    if backend != "dmrg":
        rcase = {"seq": seqc, "evals": [all_rel], "dt": case["dt"], "custom": None, "cutoff": 0.0}
        refs, info = c01.reference(rcase, seq)
        ref = refs[0]
    nsteps = len(res.get_result_times("statistics"))
    # this property is about *which* time a value belongs to (neighbouring times differ by >1e-3 here), not about accuracy
    vtol = 1e-6 if backend == "sv" else (20.0 * (2 * 1e-8 + 6 * 1e-8 * cfg.extra_krylov_tolerance) * nsteps + 1e-6)
    for tag, want in zip(tags, requested):
        if tag not in res.get_result_tags():
            if want:
                r.fail("observable_missing:" + tag, f"requested at {want}, tags {res.get_result_tags()}")
            continue
        got = [float(t) for t in res.get_result_times(tag)]
        tol_t = TOL["time_match_rel"]
        if any(b - a <= 0 for a, b in zip(got[:-1], got[1:])):
            r.fail("times_not_increasing:" + tag, f"{got}")
            continue
        missing = [w for w in want if not any(abs(w - g) <= tol_t for g in got)]
        extra = [g for g in got if not any(abs(w - g) <= tol_t for w in want)]
        if extra:
            near = [min(abs(g - w) for w in want) * T for g in extra]
            explicit = case["evals"][tags.index(tag)] is not None
            kind = "recorded_at_unrequested_time:" + tag
            dflt = case["default"] if case["default"] is not None else [1.0]  # pulser's default_evaluation_times is (1.0,)
            if explicit and all(any(abs(g - dft) <= tol_t for dft in dflt) for g in extra):
                kind += ":at_config_default_time"
            r.fail(kind, f"{tag}: requested {want}, recorded {got}; extra {extra} ({[round(x, 4) for x in near]} ns from the nearest requested time); "
                         f"T={T}, dt={dt}, default={case['default']}")
        if missing:
            r.fail("requested_time_not_recorded:" + tag, f"{tag}: requested {want}, recorded {got}; missing {missing}; T={T}, dt={dt}")
        if len(got) != len(want) and not extra and not missing:
            r.fail("recorded_more_than_once:" + tag, f"{want} vs {got}")
        if ref is None or extra or missing:
            continue
        vals = getattr(res, tag)
        for t_rel, v in zip(got, vals):
            try:
                k = ref.index_of(t_rel * T, tol=1e-6 * max(1.0, T))
            except KeyError:
                continue
            H = ref.H[k - 1] if k > 0 else ref.h_step(0)
            if tag == "occupation":
                w, sc = ref.occupation(k), 1.0
            elif tag == "correlation_matrix":
                w, sc = ref.correlation(k), 1.0
            else:
                w, sc = np.real(ref.expect(k, H)), max(1.0, float(np.linalg.norm(H, 2)))
            err = float(np.max(np.abs(e2e.to_np(v) - w))) / sc
            if not err <= vtol:
                r.fail("value_not_from_requested_time:" + tag, f"t={t_rel} ({t_rel * T:.4f} ns): error {err:.3e} > {vtol:.1e} (backend {backend}, dt={dt})")
                break
    return r
