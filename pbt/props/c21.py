"""C21: the simulation time grid covers the sequence and every evaluation time; one solver step per
interval; each noise trajectory is simulated as many times as Pulser requests."""
from __future__ import annotations

import math

from hypothesis import strategies as st

from pbt import build, e2e, gen
from pbt.common import Result, cut

ID = "C21"
LEVEL = "exploration"
TOL = {"time_rel_duration": 2e-10, "pulser_uniqueness_rel": 1e-12}
RULE = ("real Pulser sequences of 1-3 operations with durations 1..10000 ns (XY and rydberg, modulated or not), dt from "
        "0.1 to above the duration (ints, floats, non-representable decimals), evaluation-time sets (rationals, "
        "linspace-style, irrationals, 0 and 1, times 1e-16..1e-9 below the end, per observable and config default), n_trajectories 1..50 with no / "
        "SPAM / amplitude noise; validity predicate on PulserData.target_times and the yielded SequenceData; a tenth "
        "of the cases are also run on a backend to count the steps actually taken; non-trivial = dt does not divide "
        "the duration or an evaluation time is off the dt grid; distinct = case hash")
ASSUMPTIONS = ["times within 1e-10*duration of each other are the same time: that is the tolerance with which the backends and pulser match evaluation times (exact float identity is not demanded)"]


def budget(tier):
    return {"cases": 1500 if tier == "quick" else 20000, "shards": 16, "wall": 600 if tier == "quick" else 3000}


@st.composite
def _cases(draw):
    basis = draw(st.sampled_from(["rydberg", "rydberg", "XY"]))
    mod = draw(st.booleans())
    dur = draw(st.one_of(st.integers(1, 30), st.integers(1, 400), st.integers(1, 10000)))
    n_ops = draw(st.integers(1, 3))
    durs = []
    rest = dur
    for i in range(n_ops):
        d = rest if i == n_ops - 1 else draw(st.integers(1, max(1, rest - (n_ops - 1 - i))))
        durs.append(max(1, d))
        rest -= d
        if rest <= 0:
            break
    reg = draw(gen.registers(2, 3, dmin=6.0, dmax=10.0))
    ops = []
    for d in durs:
        if draw(st.integers(0, 3)) == 0:
            ops.append({"t": "delay", "ch": "g", "d": d})
        else:
            ops.append({"t": "pulse", "ch": "g", "amp": {"k": "const", "d": d, "v": draw(st.sampled_from([1.0, 3.0, 0.0]))},
                        "det": {"k": "ramp", "d": d, "a": -2.0, "b": 2.0} if d > 1 else {"k": "const", "d": d, "v": 1.0},
                        "phase": 0.0})
    if not any(o["t"] == "pulse" for o in ops):
        ops.append({"t": "pulse", "ch": "g", "amp": {"k": "const", "d": 4, "v": 1.0}, "det": {"k": "const", "d": 4, "v": 0.0}, "phase": 0.0})
    seq = {"reg": reg, "basis": basis, "device": "mod" if mod else "mock", "local": None, "dmm": None, "slm": None, "ops": ops}
    T = sum(o.get("d", 0) or build.wf_duration(o["amp"]) if o["t"] == "pulse" else o["d"] for o in ops)
    dt = draw(st.one_of(
        st.sampled_from([1, 2, 3, 5, 7, 10, 25, 100]), st.sampled_from([0.1, 0.5, 0.3, 2.5, 7.5, 1.1, 0.7]),
        st.integers(1, 2 * max(T, 1)), st.floats(0.1, 50.0).map(lambda v: round(v, 3)),
        st.just(float(T)), st.just(T + 1), st.just(T / 3), st.just(T / 7)))
    if T / dt > 3000:  # keep PulserData cheap: at most 3000 steps
        dt = max(dt, round(T / 3000 + 0.05, 1))
    evals = [draw(gen.eval_time_sets(4)) for _ in range(draw(st.integers(1, 2)))]
    if draw(st.integers(0, 3)) == 0:
        # a time a hair below the end (the last entry of np.cumsum([0.1] * 10) is 0.9999999999999999), replacing 1.0 if present
        near = draw(st.sampled_from([0.9999999999999999, 1 - 1e-12, 1 - 3e-11, 1 - 2e-10, 1 - 1e-9]))
        evals[0] = sorted({e for e in evals[0] if e < 0.999} | {near})
    return {"seq": seq, "dt": dt, "mod": mod,
            "evals": evals,
            "default_evals": draw(st.one_of(st.none(), gen.eval_time_sets(3))),
            "default_pos": draw(st.integers(0, 2)),
            "noise": draw(st.sampled_from([None, None, "spam", "amp", "dephasing"] if basis != "XY" else [None, None, "dephasing"])),
            "n_traj": draw(st.one_of(st.just(1), st.integers(1, 50))),
            "backend": draw(st.sampled_from(["sv", "mps"])),
            "run": draw(st.integers(0, 9)) == 0, "seed": draw(st.integers(0, 2**20))}


def strategy(tier):
    return _cases()


def check_case(case) -> Result:
    import numpy as np
    import pulser
    from emu_base import PulserData

    r = Result()
    e2e.seed_all(case["seed"])
    seq = build.sequence(case["seq"])
    basis = case["seq"]["basis"]
    backend = "mps" if basis == "XY" else ("sv" if case["noise"] == "spam" else case["backend"])
    nm = None
    if case["noise"] == "spam":
        nm = pulser.NoiseModel(state_prep_error=0.2, p_false_pos=0.05, p_false_neg=0.1)
    elif case["noise"] == "amp":
        nm = pulser.NoiseModel(amp_sigma=0.1)
    elif case["noise"] == "dephasing":
        nm = pulser.NoiseModel(dephasing_rate=0.2)
    names = ["occupation", "energy"][: len(case["evals"])]
    obs = e2e.observables(names, None, None, per_obs_evals=case["evals"])
    if len(case["evals"]) == 2 and case["seed"] % 3 == 0:
        import pulser.backend as pb

        # two observables of the SAME kind told apart by tag_suffix, each with its own times
        obs = [pb.Occupation(evaluation_times=case["evals"][0], tag_suffix="a"), pb.Occupation(evaluation_times=case["evals"][1], tag_suffix="b")]
        r.label("same_kind_twice_with_suffix")
    if case["default_evals"] is not None:
        import pulser.backend as pb

        # an observable relying on the config's default evaluation times, at a generated position in the list
        obs.insert(min(case.get("default_pos", 2), len(obs)), pb.CorrelationMatrix())
    kw = dict(dt=case["dt"], observables=obs, with_modulation=case["mod"], n_trajectories=case["n_traj"])
    if nm is not None:
        kw["noise_model"] = nm
    if case["default_evals"] is not None:
        kw["default_evaluation_times"] = case["default_evals"]
    cfg = cut(e2e.sv_config if backend == "sv" else e2e.mps_config, **kw)
    dt = float(case["dt"])
    T = float(seq.get_duration(include_fall_time=case["mod"]))
    T_plain = float(seq.get_duration())
    pd = cut(PulserData, sequence=seq, config=cfg, dt=case["dt"])
    tt = [float(t) for t in pd.target_times]
    tol = TOL["time_rel_duration"] * T + 1e-12
    rel_all = sorted({e for ev in case["evals"] for e in ev} | set(case["default_evals"] or ([1.0] if False else [])))
    if case["default_evals"] is None:
        pass
    grid_pts = [k * dt for k in range(int(math.floor(T / dt + 1e-12)) + 1)]
    off_grid = [e for e in rel_all if min(abs(e * T - g) for g in grid_pts + [T]) > 1e-6]
    r.nontrivial = abs(T / dt - round(T / dt)) > 1e-9 or bool(off_grid)
    r.label("mod" if case["mod"] else "nomod", "dt<1" if dt < 1 else ("dt>T" if dt > T else "dt_mid"),
            "noise:" + str(case["noise"]), basis, "traj>1" if case["n_traj"] > 1 else "traj1")
    if case["mod"] and T > T_plain:
        r.label("fall_time>0")
    if off_grid:
        r.label("eval_off_grid")
    if any(np.diff(tt) <= 0):
        i = int(np.argmax(np.diff(tt) <= 0))
        r.fail("not_strictly_increasing", f"target_times[{i}:{i + 2}]={tt[i:i + 2]}")
    if tt[0] != 0.0:
        r.fail("does_not_start_at_zero", f"first {tt[0]!r}")
    if abs(tt[-1] - T) > tol:
        r.fail("does_not_end_at_duration", f"last {tt[-1]!r} duration {T}")
    need = [(g, "dt multiple") for g in grid_pts if g <= T + tol] + [(e * T, "evaluation time") for e in rel_all]
    arr = np.array(tt)
    for t, what in need:
        if np.min(np.abs(arr - t)) > tol:
            r.fail("missing_target_time:" + what.replace(" ", "_"), f"{what} {t!r} not in target_times (nearest {arr[np.argmin(np.abs(arr - t))]!r})")
            break
    wanted = np.array(sorted(t for t, _ in need) + [T])
    extra = [t for t in tt if np.min(np.abs(wanted - t)) > tol]
    if extra:
        r.fail("unexpected_target_time", f"{extra[:4]} are neither dt multiples, evaluation times nor the end")
    near_dups = [(a, b) for a, b in zip(tt[:-1], tt[1:]) if 0 < (b - a) / T < TOL["pulser_uniqueness_rel"]]
    if near_dups:
        r.fail("near_duplicate_target_times", f"{near_dups[:3]} differ by < 1e-12 relative: a zero-length step, and pulser rejects such times (run() raises)")
    # sequences: reps add up, shapes match
    total = 0
    for sd in cut(lambda: list(pd.get_sequences())):
        total += 1
        if sd.omega.shape[0] != len(tt) - 1 or sd.delta.shape[0] != len(tt) - 1 or sd.phi.shape[0] != len(tt) - 1:
            r.fail("step_count_mismatch", f"omega rows {sd.omega.shape[0]} != len(target_times)-1 = {len(tt) - 1}")
            break
        if list(sd.target_times) != list(pd.target_times):
            r.fail("sequence_data_times_differ", "SequenceData.target_times != PulserData.target_times")
            break
    if total != case["n_traj"]:
        r.fail("trajectory_count", f"{total} SequenceData yielded for n_trajectories={case['n_traj']}")
    if case["run"] and len(tt) <= 400 and case["n_traj"] <= 3 and case["noise"] != "dephasing":
        r.label("ran_backend")
        e2e.seed_all(case["seed"])
        if backend == "sv":
            from emu_sv import SVBackend as B
        else:
            from emu_mps import MPSBackend as B
        import contextlib
        import io

        with contextlib.redirect_stdout(io.StringIO()):
            res = cut(B(seq, config=cfg).run)
        # statistics is skipped by aggregation with several trajectories; count when present
        if "statistics" in res.get_result_tags():
            nst = len(res.get_result_times("statistics"))
            if nst != len(tt) - 1:
                r.fail("steps_taken", f"{nst} steps recorded by the backend, {len(tt) - 1} intervals")
    return r
