"""C22: per-step amplitude / detuning / phase equal the PCHIP interpolation of Pulser's samples at the
step midpoints; the amplitude is never negative."""
from __future__ import annotations

from hypothesis import strategies as st

from pbt import build, e2e, gen
from pbt.common import Result, cut

ID = "C22"
LEVEL = "exploration"
TOL = {"rel_local": 1e-9}
RULE = ("full pulse grammar (constant, ramp, Blackman, interpolated, composite waveforms; global + retargeted local "
        "channels; DMM detuning maps; delays; XY) with amplitude/detuning shot-to-shot noise, dt 0.1..25 incl. below 1 "
        "ns, evaluation times inside the last nanosecond; oracle: scipy PchipInterpolator of the very Pulser samples "
        "the adapter consumed, at the midpoints of the adapter's own target times, amplitude clamped at 0; clause "
        "omega >= 0 in every row; non-trivial = >=1 step with midpoint beyond the last sample or a flat run at a pulse "
        "boundary or dt<1; distinct = case hash")
ASSUMPTIONS = ["the noisy samples are re-read deterministically from PulserData.hamiltonian (same trajectory objects)",
               "column order is the register order (checked against per-qubit samples by qubit id)"]


def budget(tier):
    return {"cases": 800 if tier == "quick" else 12000, "shards": 16, "wall": 600 if tier == "quick" else 3000}


@st.composite
def _cases(draw):
    basis = draw(st.sampled_from(["rydberg", "rydberg", "rydberg", "XY"]))
    seq = draw(gen.seq_cases(n_min=1, n_max=4, basis=basis, allow_mod=True, max_ops=4, dur_hi=60, allow_no_global=True))
    last_ns = draw(st.booleans())
    evals = draw(gen.eval_time_sets(3))
    return {"seq": seq, "dt": draw(st.one_of(gen.dts(), st.sampled_from([0.1, 0.25, 0.5, 0.7, 0.3]))),
            "evals": evals, "last_ns_frac": draw(st.floats(0.01, 0.99)) if last_ns else None,
            "noise": draw(st.sampled_from([None, None, "amp", "det", "both"])) if basis != "XY" else None,
            "n_traj": draw(st.integers(1, 3)), "seed": draw(st.integers(0, 2**20))}


def strategy(tier):
    return _cases()


def check_case(case) -> Result:
    import numpy as np
    import pulser
    from emu_base import PulserData

    from pbt.oracles import dense

    r = Result()
    e2e.seed_all(case["seed"])
    seq = build.sequence(case["seq"])
    mod = case["seq"]["device"] == "mod"
    T = float(seq.get_duration(include_fall_time=mod))
    evals = list(case["evals"])
    if case["last_ns_frac"] is not None and T > 1:
        evals = sorted(set(evals + [(T - 1 + case["last_ns_frac"]) / T]))
        r.label("eval_in_last_ns")
    nm = None
    if case["noise"] == "amp":
        nm = pulser.NoiseModel(amp_sigma=0.2)
    elif case["noise"] == "det":
        nm = pulser.NoiseModel(detuning_sigma=1.0)
    elif case["noise"] == "both":
        nm = pulser.NoiseModel(amp_sigma=0.1, detuning_sigma=0.5)
    basis = case["seq"]["basis"]
    kw = dict(dt=case["dt"], observables=e2e.observables(["occupation"], evals, None), with_modulation=mod,
              n_trajectories=case["n_traj"])
    if nm is not None:
        kw["noise_model"] = nm
    cfg = cut(e2e.mps_config if basis == "XY" else e2e.sv_config, **kw)
    if T / float(case["dt"]) > 4000:
        r.discard = "too many steps"
        return r
    pd = cut(PulserData, sequence=seq, config=cfg, dt=case["dt"])
    sds = cut(lambda: list(pd.get_sequences()))
    raw = list(pd.hamiltonian.noisy_samples)
    qids = list(seq.register.qubit_ids)
    grid = [float(t) for t in pd.target_times]
    mids = np.array([(a + b) / 2 for a, b in zip(grid[:-1], grid[1:])])
    r.label(basis, "mod" if mod else "nomod", "noise:" + str(case["noise"]), "dt<1" if float(case["dt"]) < 1 else "dt>=1")
    beyond = bool(np.any(mids > T - 1))
    if beyond:
        r.label("midpoint_beyond_last_sample")
    r.nontrivial = beyond or float(case["dt"]) < 1
    k = 0
    for s in raw:
        _, loc = e2e.local_samples_of(s.samples)
        amp, det, ph = dense.drives(loc, qids, grid)
        for _ in range(s.reps):
            sd = sds[k]
            k += 1
            if tuple(sd.qubit_ids) != tuple(qids):
                r.fail("qubit_order", f"{sd.qubit_ids} != register order {qids}")
                return r
            om = sd.omega.numpy()
            de = sd.delta.numpy()
            ph_ = sd.phi.numpy()
            if om.shape != amp.shape:
                r.fail("shape", f"omega {om.shape} vs reference {amp.shape}")
                return r
            for name, got, want in (("omega", om, amp), ("delta", de, det), ("phi", ph_, ph)):
                if np.abs(got.imag).max() > 0:
                    r.fail("imaginary_part:" + name, f"max imag {np.abs(got.imag).max()}")
                if not np.all(np.isfinite(got.real)):
                    r.fail("non_finite:" + name, "nan/inf drive value")
                    continue
                sig = np.array([np.abs(loc[q][{"omega": "amp", "delta": "det", "phi": "phase"}[name]]).max() if q in loc else 0.0 for q in qids])
                scale = np.maximum(sig, 1e-12)[None, :]
                err = np.abs(got.real - want) / scale
                if err.max() > TOL["rel_local"]:
                    i, j = np.unravel_index(np.argmax(err), err.shape)
                    where = "beyond_last_sample" if mids[i] > T - 1 else ("first_ns" if mids[i] < 1 else "interior")
                    r.fail(f"{name}_differs_from_pchip:{where}",
                           f"step {i} (mid {mids[i]!r} of T={T}) atom {qids[j]}: got {got.real[i, j]!r} want {want[i, j]!r}")
            if om.real.min() < -1e-12:
                i, j = np.unravel_index(np.argmin(om.real), om.shape)
                r.fail("negative_amplitude", f"omega[{i},{j}]={om.real[i, j]!r} at mid {mids[i]!r} (T={T}, last row index {om.shape[0] - 1})")
    return r
