"""C06: emu-sv's Hamiltonian and Lindblad superoperator apply exactly the dense operators they represent;
the batched 2x2 matmul path equals the plain one."""
from __future__ import annotations

from hypothesis import strategies as st

from pbt.common import Result, cut

ID = "C06"
LEVEL = "exploration"
TOL = {"rel_scale": 1e-10}
RULE = ("N in 1..8; omega, delta real of any sign incl. zeros; phases all-zero / some-zero / none-zero; symmetric U of "
        "any sign with zeros; 0-6 arbitrary complex 2x2 jump operators; arbitrary complex vectors and Hermitian "
        "matrices (unnormalised); oracles: dense H@v (numpy kron), dense Lindblad generator -i[H,rho] + sum(L rho Ld - "
        "1/2{LdL,rho}) against -i*(Lindbladian @ rho), <psi|H|psi>, Tr(H rho), matmul_2x2_with_batched(A,X) == A@X (A with zero / real / imaginary / complex entries) on "
        "CPU tensors for every qubit position; non-trivial = N>=2 with non-zero U and drive; distinct = case hash")
ASSUMPTIONS = ["no GPU in the sandbox: the batched kernel is exercised on CPU tensors only"]


def budget(tier):
    return {"cases": 1500 if tier == "quick" else 30000, "shards": 16, "wall": 600 if tier == "quick" else 3000}


def _real():
    return st.one_of(st.sampled_from([0.0, 1.0, -2.5]), st.floats(-20, 20).map(lambda v: round(v, 6)))


def _c():
    return st.tuples(st.floats(-2, 2), st.floats(-2, 2)).map(lambda t: [round(t[0], 6), round(t[1], 6)])


@st.composite
def _cases(draw):
    n = draw(st.integers(1, 8))
    pm = draw(st.sampled_from(["zero", "some", "all"]))
    phi = []
    for i in range(n):
        if pm == "zero" or (pm == "some" and draw(st.booleans())):
            phi.append(0.0)
        else:
            phi.append(draw(st.floats(-6.3, 6.3).map(lambda v: round(v, 6))) or 0.7)
    npairs = n * (n - 1) // 2
    return {"n": n, "omega": [draw(_real()) for _ in range(n)], "delta": [draw(_real()) for _ in range(n)], "phi": phi,
            "U": [draw(st.one_of(st.just(0.0), st.floats(-400, 400).map(lambda v: round(v, 5)))) for _ in range(npairs)],
            "jumps": [[[draw(_c()) for _ in range(2)] for _ in range(2)] for _ in range(draw(st.integers(0, 6)))],
            "seed": draw(st.integers(0, 2**31 - 1))}


def strategy(tier):
    return _cases()


def check_case(case) -> Result:
    import numpy as np
    import torch
    from emu_base.math.matmul import matmul_2x2_with_batched
    from emu_sv.density_matrix_state import DensityMatrix
    from emu_sv.hamiltonian import RydbergHamiltonian
    from emu_sv.lindblad_operator import RydbergLindbladian
    from emu_sv.state_vector import StateVector

    from pbt.oracles import dense

    r = Result()
    n = case["n"]
    D = 2**n
    rng = np.random.default_rng(case["seed"])
    om, de, ph = np.array(case["omega"]), np.array(case["delta"]), np.array(case["phi"])
    U = np.zeros((n, n))
    k = 0
    for i in range(n):
        for j in range(i + 1, n):
            U[i, j] = U[j, i] = case["U"][k]
            k += 1
    # the emulators pass amplitudes >= 0, but omega is just a real coefficient of the operator: any sign
    H = dense.hamiltonian("rydberg", om, de, ph, U, d=2)
    scaleH = max(1.0, float(np.abs(H).sum(axis=1).max()))
    cpu = torch.device("cpu")
    t = lambda a: torch.tensor(a, dtype=torch.complex128)  # noqa: E731
    ham = cut(RydbergHamiltonian, omegas=t(om), deltas=t(de), phis=t(ph), interaction_matrix=torch.tensor(U), device=cpu)
    v = rng.normal(size=D) + 1j * rng.normal(size=D)
    got = cut(lambda: ham * t(v)).numpy()
    want = H @ v
    r.label(f"n{n}", "phase:" + ("zero" if not np.any(ph) else ("all" if np.all(ph) else "some")), f"jumps{min(len(case['jumps']), 3)}")
    r.nontrivial = n >= 2 and bool(np.any(U)) and bool(np.any(om))
    tol = TOL["rel_scale"]
    if np.abs(got - want).max() > tol * scaleH * np.abs(v).max():
        r.fail("hamiltonian_times_vector", f"max diff {np.abs(got - want).max():.3e} (scale {scaleH:.3g})")
    e = cut(ham.expect, StateVector(t(v), gpu=False))
    if abs(complex(e) - np.vdot(v, H @ v).real) > tol * scaleH * np.linalg.norm(v) ** 2:
        r.fail("hamiltonian_expect", f"{complex(e)} vs {np.vdot(v, H @ v)}")
    # Lindbladian
    Ls = [np.array([[complex(*c) for c in row] for row in m]) for m in case["jumps"]]
    lind = cut(RydbergLindbladian, omegas=t(om), deltas=t(de), phis=t(ph), pulser_lindblads=[t(L) for L in Ls],
               interaction_matrix=torch.tensor(U), device=cpu)
    M = rng.normal(size=(D, D)) + 1j * rng.normal(size=(D, D))
    rho = (M + M.conj().T) / 2
    gotL = -1j * cut(lambda: lind @ t(rho)).numpy()
    wantL = -1j * (H @ rho - rho @ H)
    for i in range(n):
        for L in Ls:
            Lf = dense.site_op(L, i, n, 2)
            LdL = Lf.conj().T @ Lf
            wantL = wantL + Lf @ rho @ Lf.conj().T - 0.5 * (LdL @ rho + rho @ LdL)
    scaleL = max(1.0, scaleH + sum(np.linalg.norm(L, 2) ** 2 for L in Ls) * n) * np.abs(rho).max() * D
    if np.abs(gotL - wantL).max() > tol * scaleL:
        r.fail("lindbladian_on_hermitian_matrix", f"max diff {np.abs(gotL - wantL).max():.3e} (scale {scaleL:.3g}), {len(Ls)} jump operators")
    rho1 = rho / np.trace(rho) if abs(np.trace(rho)) > 1e-3 else rho
    eL = cut(lind.expect, DensityMatrix(t(rho1), gpu=False))
    if abs(complex(eL) - np.trace(H @ rho1).real) > tol * scaleH * np.abs(rho1).sum():
        r.fail("lindbladian_expect", f"{complex(eL)} vs {np.trace(H @ rho1)}")
    # batched 2x2 kernel vs plain matmul, for every qubit position of a matrix-shaped operand
    # A: entries that are zero / purely real / purely imaginary / complex (the local operators the kernel is used with are
    # structured: sigma matrices, projectors, and the effective single-atom term whose diagonal is -i/2 sum L^dagger L)
    A = np.zeros((2, 2), dtype=complex)
    for i_ in range(2):
        for j_ in range(2):
            kind_ = rng.integers(0, 4)
            A[i_, j_] = [0.0, rng.normal(), 1j * rng.normal(), rng.normal() + 1j * rng.normal()][kind_]
    if not A.any():
        A[0, 1] = 1j
    for q in range(n):
        X = t(rho).view(2**q, 2, -1)
        a = cut(matmul_2x2_with_batched, t(A), X).numpy()
        b = (t(A) @ X).numpy()
        if np.abs(a - b).max() > 1e-12 * max(1.0, np.abs(b).max()):
            r.fail("batched_matmul_differs", f"qubit {q}: max diff {np.abs(a - b).max():.3e}")
            break
        if not np.allclose(b.reshape(D, D), dense.site_op(A, q, n, 2) @ rho, atol=1e-9 * max(1, np.abs(rho).max()) * 4):
            r.fail("local_left_multiplication_layout", f"qubit {q}: view(2**q,2,-1) does not address qubit {q}")
            break
    return r
