"""C28: noiseless evolution conserves the norm, and energy / its second moment while the Hamiltonian is constant."""
from __future__ import annotations

from hypothesis import strategies as st

from pbt import build, e2e, gen
from pbt.common import Result, cut

ID = "C28"
LEVEL = "exploration"
TOL = {"sv": "10*krylov_tolerance*steps + 1e-9 (relative to an upper bound of |H| for energies)",
       "mps": "20*(2(N-1)*precision + 3N*precision*extra)*steps + 2e-7 (relative to the same bound)"}
RULE = ("piecewise-constant sequences: 1-3 consecutive constant pulses on the global channel, optionally a constant pulse on "
        "a local channel in parallel; chains / ladders / rings with shuffled labels; emu-sv with 2-12 atoms, emu-mps with "
        "2-20 atoms (short durations so that bonds stay below the cap; cap-binding runs only get the norm clause); any "
        "dt (dividing or not), precision / krylov tolerance, reordering on/off; observables at every grid time plus "
        "generated off-grid times.  Oracle: the norm of every reported state is 1 within the backend's precision; over "
        "each maximal window of steps whose per-atom drive values (recomputed by the harness from Pulser's samples) and "
        "interaction matrix are constant, the reported energy and second moment are constant (evaluation times strictly "
        "after the first step of the window up to its end, since a value at a time is reported with the Hamiltonian of "
        "the step just finished).  non-trivial = a window with >=3 evaluation times, non-zero drive and interaction; "
        "distinct = case hash")
ASSUMPTIONS = ["window detection uses the harness' own PCHIP midpoint drives (scipy), not the emulator's",
               "energy scale = sum|Omega|/2 + sum|delta| + sum|U_ij| (upper bound of the operator norm), so the clause is relative"]


def budget(tier):
    return {"cases": 96 if tier == "quick" else 1200, "shards": 16, "wall": 900 if tier == "quick" else 1200}  # a single 20-atom grid case can take ~30 min: the deadline is checked between cases


@st.composite
def _cases(draw, big=False):
    backend = draw(st.sampled_from(["sv", "mps", "mps"]))
    nmax = (14 if big else 10) if backend == "sv" else (20 if big else 12)
    reg = draw(gen.registers(2, nmax, dmin=6.0, dmax=9.0, shapes=("chain", "ring", "grid")))
    ids = reg["ids"]
    dt = draw(st.sampled_from([2, 5, 10, 10, 4, 2.5]))
    pulses = []
    for _ in range(draw(st.integers(1, 3))):
        k = draw(st.integers(2, 8))
        d = int(max(4, round(k * dt)))
        pulses.append({"d": d, "amp": draw(st.sampled_from([0.0, 2.0, 5.0, 9.0])), "det": draw(st.sampled_from([0.0, -6.0, 4.0, 10.0])),
                       "phase": draw(st.sampled_from([0.0, 0.0, 1.1, 3.0]))})
    if all(p["amp"] == 0 for p in pulses):
        pulses[0]["amp"] = 4.0
    local = None
    if draw(st.booleans()):
        local = {"q": draw(st.sampled_from(ids)), "amp": draw(st.sampled_from([3.0, 7.0])), "det": draw(st.sampled_from([0.0, 5.0]))}
    return {"backend": backend, "reg": reg, "dt": dt, "pulses": pulses, "local": local,
            "off_grid": draw(st.lists(st.floats(0.0, 1.0).map(lambda v: round(v, 4)), max_size=3)),
            "precision": 10.0 ** draw(st.sampled_from([-6, -7, -8])), "ktol": 10.0 ** draw(st.sampled_from([-8, -10])),
            "reorder": draw(st.booleans()), "max_bond": draw(st.sampled_from([None, None, None, 2, 4])),
            "seed": draw(st.integers(0, 2**20))}


def strategy(tier):
    return _cases(big=(tier == "thorough"))


def check_case(case) -> Result:
    import contextlib
    import io
    import warnings

    import numpy as np
    import pulser.backend as pb

    from pbt.oracles import dense, tn

    r = Result()
    e2e.seed_all(case["seed"])
    backend = case["backend"]
    ids = case["reg"]["ids"]
    n = len(ids)
    ops = [{"t": "pulse", "ch": "g", "amp": {"k": "const", "d": p["d"], "v": p["amp"]}, "det": {"k": "const", "d": p["d"], "v": p["det"]},
            "phase": p["phase"]} for p in case["pulses"]]
    loc = case["local"]
    if loc is not None:
        T0 = sum(p["d"] for p in case["pulses"])
        ops = [{"t": "pulse", "ch": "l", "amp": {"k": "const", "d": T0, "v": loc["amp"]}, "det": {"k": "const", "d": T0, "v": loc["det"]},
                "phase": 0.0, "protocol": "no-delay"}] + ops
    seqc = {"reg": case["reg"], "basis": "rydberg", "device": "mock", "local": loc["q"] if loc else None, "dmm": None, "slm": None, "ops": ops}
    # the local pulse runs in parallel with the global ones
    for o in seqc["ops"]:
        o.setdefault("protocol", "no-delay")
    seq = build.sequence(seqc)
    T = float(seq.get_duration())
    dt = float(case["dt"])
    nsteps_grid = int(np.floor(T / dt + 1e-12))
    if nsteps_grid > 200:
        r.discard = "too many steps"
        return r
    evs = sorted({round(k * dt / T, 12) for k in range(nsteps_grid + 1)} | {1.0} | set(case["off_grid"]))
    evs = [e for e in evs if 0.0 <= e <= 1.0]
    with_state = n <= 12
    with_h2 = backend == "sv" or n <= 8
    obs = [pb.Energy(evaluation_times=evs)]
    if with_h2:
        obs.append(pb.EnergySecondMoment(evaluation_times=evs))
    if with_state:
        obs.append(pb.StateResult(evaluation_times=evs))
    kw = dict(dt=case["dt"], observables=obs)
    with warnings.catch_warnings():
        warnings.simplefilter("ignore")
        if backend == "sv":
            from emu_sv import SVBackend as B

            cfg = e2e.sv_config(krylov_tolerance=case["ktol"], **kw)
        else:
            from emu_mps import MPSBackend as B

            if case["max_bond"] is not None:
                kw["max_bond_dim"] = case["max_bond"]
            cfg = e2e.mps_config(precision=case["precision"], optimize_qubit_ordering=case["reorder"], **kw)
    with contextlib.redirect_stdout(io.StringIO()):
        res = cut(B(seq, config=cfg).run)
    # ---- harness-side drives per step and windows of constant Hamiltonian
    hd, trajs = dense.from_sequence(seq)
    basis, locs, traj, reps = trajs[0]
    locs = {q: {k: np.real(np.asarray(v, dtype=complex)) for k, v in d.items()} for q, d in locs.items()}
    grid = dense.emu_grid(T, dt, evs)
    amp, det, ph = dense.drives(locs, list(seq.register.qubit_ids), grid)
    U = dense.two_body(traj.interaction_matrix)
    scale = float(np.abs(amp).sum(axis=1).max() / 2 + np.abs(det).sum(axis=1).max() + np.abs(np.triu(U, 1)).sum()) + 1.0
    nsteps = len(grid) - 1
    same = [bool(np.allclose(amp[k], amp[k - 1], atol=1e-12) and np.allclose(det[k], det[k - 1], atol=1e-12) and
                 (np.allclose(ph[k], ph[k - 1], atol=1e-12) or not np.any(amp[k]))) for k in range(1, nsteps)]
    windows = []
    s0 = 0
    for k in range(1, nsteps + 1):
        if k == nsteps or not same[k - 1]:
            windows.append((s0, k - 1))
            s0 = k
    if backend == "sv":
        tol = 10 * case["ktol"] * nsteps + 1e-9
    else:
        tol = 20.0 * (2 * (n - 1) * case["precision"] + 3 * n * case["precision"] * cfg.extra_krylov_tolerance) * nsteps + 2e-7
    cap_binds = False
    if backend == "mps" and case["max_bond"] is not None and "statistics" in res.get_result_tags():
        mb = max(int(s["max_bond_dimension"]) for s in res.statistics)
        if mb > case["max_bond"]:
            r.fail("bond_exceeds_cap", f"{mb} > {case['max_bond']}")
        cap_binds = mb >= case["max_bond"] and case["max_bond"] < 2 ** (n // 2)
    r.label(backend, "n<=6" if n <= 6 else ("n7-12" if n <= 12 else "n13+"), "local" if loc else "global_only", f"pulses{len(case['pulses'])}",
            "cap_binds" if cap_binds else "cap_free")
    # ---- norm
    if with_state:
        for t, s in zip(res.get_result_times("state"), res.state):
            nrm = float(np.linalg.norm(tn.mps_to_dense(s.factors))) if backend == "mps" else float(np.linalg.norm(s.data.numpy()))
            if abs(nrm - 1) > tol:
                r.fail("norm_not_conserved:" + backend, f"t={t}: |psi|={nrm!r} (tol {tol:.2e})")
                break
    # ---- energy and second moment constant over each window
    times = {tag: [float(t) for t in res.get_result_times(tag)] for tag in ("energy", "energy_second_moment") if tag in res.get_result_tags()}
    best = 0
    for tag, tt in times.items():
        vals = [float(v) for v in getattr(res, tag)]
        sc = scale if tag == "energy" else scale**2
        for (a, b) in windows:
            # grid indices whose value is reported with the Hamiltonian of a step inside the window: a+1 .. b+1
            idx = []
            for t, v in zip(tt, vals):
                k = int(np.argmin([abs(g - t * T) for g in grid]))
                if abs(grid[k] - t * T) < 1e-6 * max(1.0, T) and a + 1 <= k <= b + 1:
                    idx.append((t, v))
            active = bool(np.any(amp[a])) and bool(np.any(U))
            if active:
                best = max(best, len(idx))
            if len(idx) >= 2 and not cap_binds:
                vs = np.array([v for _, v in idx])
                spread = float(vs.max() - vs.min()) / sc
                if spread > tol:
                    r.fail(f"{tag}_not_conserved:{backend}", f"window steps {a}..{b} ({grid[a]:.1f}-{grid[b + 1]:.1f} ns): values {np.round(vs, 8).tolist()[:8]} "
                                                               f"spread/scale {spread:.3e} > {tol:.2e} (scale {sc:.3g}, n={n}, dt={dt})")
                    break
    r.nontrivial = best >= 3
    return r
