"""C09: the DMRG solver follows the ground state of each step's Hamiltonian (variational, accurate when gapped)."""
from __future__ import annotations

from hypothesis import strategies as st

from pbt import build, e2e, gen
from pbt.common import Result, cut
from pbt.props import c01

ID = "C09"
LEVEL = "exploration"
TOL = {"variational_rel": 1e-8, "accuracy": "10*energy_tolerance(1e-5) + 50*precision*|H| when gap >= 0.5 rad/us and N <= 6",
       "norm": 1e-8, "orthonormality": 1e-8}
RULE = ("noiseless ground-rydberg sequences with the DMRG solver, 2-6 atoms (thorough 8): chains / rings / grids with "
        "shuffled labels, one or two pulses with constant or ramped amplitude and detuning (adiabatic-style), optional "
        "DMM and local channel; dt 2..25 incl. non-dividing; precision 1e-5..1e-8; max_bond_dim uncapped or 2/4; "
        "reordering on/off; one case in ~12 is a long run of 1040 / 2100 time steps on 2-3 atoms; Energy, Occupation and StateResult at generated times.  Oracle per evaluation time t>0: "
        "dense Hamiltonian of the step just finished (independent reference drives of C01) -> numpy eigvalsh; clauses: "
        "E >= E0 - 1e-8*|H| always; E - E0 <= 10*1e-5 + 50*precision*|H| when the gap is >= 0.5 rad/us, N <= 6 and the "
        "bond cap does not bind -- a failure of this clause is attributed: the harness captures the solver's internal MPS and "
        "Hamiltonian at each recording time and solves every two-site effective problem densely; 'stopped before a local "
        "optimum' (some pair can still lower the energy beyond the slack) is a violation of its own, 'local minimum of "
        "two-site DMRG' (all pairs optimal, yet above E0) is the algorithm's known limitation; the returned MPS has norm 1 (1e-8) and is left/right-orthonormal about its declared "
        "centre; reported energy equals <psi|H|psi> of the returned state.  non-trivial = >=3 atoms, gapped, "
        "ground state not a product state (entropy of some cut > 1e-3); distinct = case hash")
ASSUMPTIONS = ["the accuracy clause is limited to small gapped instances as the statement says; elsewhere only the variational and "
               "validity clauses apply", "dense reference Hamiltonian from Pulser's samples via the harness' own PCHIP midpoints"]


def budget(tier):
    return {"cases": 64 if tier == "quick" else 800, "shards": 16, "wall": 900 if tier == "quick" else 3300}


@st.composite
def _cases(draw, n_max=6):
    seq = draw(gen.seq_cases(n_min=2, n_max=n_max, basis="rydberg", allow_mod=False, allow_slm=False, max_ops=2, dur_hi=60, dmin=5.5, dmax=9.0,
                             amp_kinds=("const", "ramp", "blackman"), det_kinds=("const", "ramp")))
    # one case in ~12 is a *long* run (more than 1000 / 2000 time steps on 2-3 atoms): the per-step sweep limit must not
    # accumulate over the run (fixed finding 504822b)
    long_steps = draw(st.sampled_from([0] * 11 + [1040, 2100]))
    if long_steps:
        seq = draw(gen.seq_cases(n_min=2, n_max=3, basis="rydberg", allow_mod=False, allow_slm=False, max_ops=1, dur_hi=60, dmin=5.5, dmax=9.0,
                                 amp_kinds=("const", "ramp"), det_kinds=("const", "ramp")))
    return {"seq": seq, "long_steps": long_steps, "dt": draw(st.sampled_from([5, 10, 10, 7, 25, 2])), "precision": 10.0 ** draw(st.sampled_from([-5, -6, -8])),
            "evals": [draw(gen.eval_time_sets(3))], "max_bond": draw(st.sampled_from([None, None, None, 2, 4])),
            "reorder": draw(st.booleans()), "custom": None, "cutoff": 0.0, "seed": draw(st.integers(0, 2**20))}


def strategy(tier):
    return _cases(n_max=6 if tier == "quick" else 8)


def check_case(case) -> Result:
    import contextlib
    import io
    import warnings

    import numpy as np
    import pulser.backend as pb
    from emu_mps import MPSBackend
    from emu_mps.solver import Solver

    from pbt.oracles import tn

    r = Result()
    e2e.seed_all(case["seed"])
    seqc = case["seq"]
    seq = build.sequence(seqc)
    n = len(seqc["reg"]["ids"])
    T = float(seq.get_duration())
    if case.get("long_steps"):
        case = dict(case, dt=T / case["long_steps"])
        r.label("long_run")
    elif T / float(case["dt"]) > 60:
        r.discard = "too many steps"
        return r
    ev = [e for e in case["evals"][0] if e > 0] or [1.0]
    state_ok = True
    obs = [pb.Energy(evaluation_times=ev), pb.Occupation(evaluation_times=ev)]
    reorder = case["reorder"]
    if not reorder:
        obs.append(pb.StateResult(evaluation_times=ev))
    kw = dict(dt=case["dt"], observables=obs, precision=case["precision"], solver=Solver.DMRG, optimize_qubit_ordering=reorder)
    if case["max_bond"] is not None:
        kw["max_bond_dim"] = case["max_bond"]
    with warnings.catch_warnings():
        warnings.simplefilter("ignore")
        cfg = cut(e2e.mps_config, **kw)
    refs, info = c01.reference(dict(case, evals=[ev]), seq)
    ref = refs[0]
    # run-time instrumentation (no source hook): capture the internal state and Hamiltonian at every recording time
    import emu_mps.mps_backend_impl as impl_mod

    captured = {}
    orig_fill = impl_mod.MPSBackendImpl.fill_results

    def fill(self):
        t = self.current_time / self.target_times[-1]
        captured[round(float(t), 12)] = ([tn._np(f).copy() for f in self.state.factors], tn.mpo_to_dense(self.hamiltonian.factors),
                                         self.state.orthogonality_center)
        return orig_fill(self)

    impl_mod.MPSBackendImpl.fill_results = fill
    try:
        with contextlib.redirect_stdout(io.StringIO()):
            res = cut(MPSBackend(seq, config=cfg).run)
    except Exception as e:  # noqa: BLE001
        inner = getattr(e, "exc", None)
        if isinstance(inner, RuntimeError) and "DMRG did not converge" in str(inner) and case["max_bond"] is not None \
                and case["max_bond"] < 2 ** (n // 2):
            # with a bond cap that can bind, truncated two-site sweeps may enter a limit cycle (observed: 8 atoms, cap 2,
            # energies alternating -0.51684 / -0.51631 from sweep to sweep); the solver then refuses honestly after
            # max_sweeps and returns nothing.  Counted as a discard; without a binding cap the same error is a violation.
            r.discard = "DMRG refused: no convergence under a bond cap that can bind"
            return r
        raise
    finally:
        impl_mod.MPSBackendImpl.fill_results = orig_fill
    cap = case["max_bond"]
    mb = max(int(s["max_bond_dimension"]) for s in res.statistics)
    if cap is not None and mb > cap:
        r.fail("bond_exceeds_cap", f"{mb} > {cap}")
    cap_binds = cap is not None and mb >= cap and cap < 2 ** (n // 2)
    r.label(f"n{n}", "reorder_on" if cfg.optimize_qubit_ordering else "reorder_off", "cap_binds" if cap_binds else "cap_free",
            "local" if seqc["local"] else "nolocal", "dmm" if seqc["dmm"] else "nodmm")
    nontrivial = False
    states = list(res.state) if not reorder else [None] * len(ev)
    for j, (t_rel, E) in enumerate(zip(res.get_result_times("energy"), res.energy)):
        k = ref.index_of(float(t_rel) * info["T"], tol=1e-6 * max(1.0, info["T"]))
        if k == 0:
            continue
        H = ref.H[k - 1]
        w, V = np.linalg.eigh(H)
        E0, gap = float(w[0]), float(w[1] - w[0])
        nH = max(1.0, float(max(abs(w[0]), abs(w[-1]))))
        E = float(E)
        if E < E0 - TOL["variational_rel"] * nH:
            r.fail("energy_below_ground_energy", f"t={t_rel}: E={E!r} < E0={E0!r} (|H|={nH:.3g}, n={n})")
            break
        gapped = gap >= 0.5 and n <= 6 and not cap_binds
        if gapped:
            r.label("gapped")
            bound = 10 * 1e-5 + 50 * case["precision"] * nH
            cap_t = captured.get(round(float(t_rel), 12))
            if cap_t is not None:
                fs_int, H_int, _c = cap_t
                w_int = np.linalg.eigvalsh(H_int)
                if np.abs(w_int - w).max() > 1e-7 * nH:
                    r.fail("solver_hamiltonian_spectrum_differs", f"t={t_rel}: max |spec(H_solver) - spec(H_ref)| = {np.abs(w_int - w).max():.3e}")
                    break
                loc = tn.local_two_site_minima(fs_int, H_int)
                psi_int = tn.mps_to_dense(fs_int)
                psi_int = psi_int / np.linalg.norm(psi_int)
                resid = float(np.linalg.norm(H_int @ psi_int - np.vdot(psi_int, H_int @ psi_int) * psi_int))
                if E - E0 > bound and resid <= 1e-8 * nH:
                    # an exact excited eigenstate (typically |g..g> under a drive of zero amplitude): every Krylov solve
                    # started from it breaks down immediately and returns it
                    r.fail("not_the_ground_energy:gapped:stuck_in_exact_eigenstate",
                           f"t={t_rel}: E={E!r} is an eigenvalue (residual {resid:.1e}) but E0={E0!r}; gap {gap:.3g}, n={n}")
                    break
                if min(loc) < E - bound:
                    r.fail("stopped_before_local_optimum", f"t={t_rel}: energy {E!r} but the two-site problem at bond {int(np.argmin(loc))} reaches {min(loc)!r} "
                                                           f"(allowed slack {bound:.2e}); E0={E0!r}")
                    break
            if E - E0 > bound:
                mode = "dmrg_local_minimum" if (cap_t is not None and min(loc) >= E - bound) else "unclassified"
                r.fail("not_the_ground_energy:gapped:" + mode,
                       f"t={t_rel}: E-E0={E - E0:.3e} > {bound:.2e} (gap {gap:.3g}, |H|={nH:.3g}, n={n}, precision={case['precision']:g}, "
                       f"reorder={cfg.optimize_qubit_ordering}, dt={case['dt']}); lowest two-site local energies {np.round(loc, 6).tolist() if cap_t is not None else None}")
                break
            gs = V[:, 0]
            ent = 0.0
            for c in range(1, n):
                sv = np.linalg.svd(gs.reshape(2**c, -1), compute_uv=False)
                p = sv**2
                p = p[p > 1e-300]
                ent = max(ent, float(-(p * np.log(p)).sum()))
            nontrivial |= n >= 3 and ent > 1e-3
            # occupations of the ground state (non-degenerate since gapped)
            occ = e2e.to_np(res.occupation[j])
            from pbt.oracles import dense

            want = np.array([np.vdot(gs, dense.site_op(dense.n_op(), i, n) @ gs).real for i in range(n)])
            if np.abs(occ - want).max() > 10 * np.sqrt(bound / gap) + 1e-6:
                r.fail("ground_state_occupation_differs", f"t={t_rel}: {np.round(occ, 5).tolist()} vs {np.round(want, 5).tolist()} (allowed {10 * np.sqrt(bound / gap):.2e})")
                break
        s = states[j] if j < len(states) else None
        if s is not None:
            v = tn.mps_to_dense(s.factors)
            if abs(np.linalg.norm(v) - 1) > TOL["norm"]:
                r.fail("state_not_normalised", f"t={t_rel}: {np.linalg.norm(v)!r}")
                break
            Ev = float(np.vdot(v, H @ v).real)
            if abs(Ev - E) > 1e-7 * nH:
                r.fail("energy_is_not_expectation_of_returned_state", f"t={t_rel}: reported {E!r}, <psi|H|psi>={Ev!r}")
                break
            c = s.orthogonality_center
            if c is not None:
                for i, f in enumerate(tn._np(x) for x in s.factors):
                    if i < c:
                        m = f.reshape(-1, f.shape[2])
                        e = np.abs(m.conj().T @ m - np.eye(m.shape[1])).max()
                    elif i > c:
                        m = f.reshape(f.shape[0], -1)
                        e = np.abs(m @ m.conj().T - np.eye(m.shape[0])).max()
                    else:
                        continue
                    if e > TOL["orthonormality"]:
                        r.fail("state_not_canonical", f"t={t_rel}: site {i} (centre {c}) deviates by {e:.2e}")
                        break
    r.nontrivial = nontrivial
    return r
