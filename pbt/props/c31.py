"""C31: every pulser-core version admitted by the declared dependency can run both backends
end to end and construct every observable the package defines.

Configurations = installed/offline pulser-core versions that satisfy the specifier parsed from
pyproject.toml and ci/emu_base/pyproject.toml.  Exactly one exists offline (the installed one), so
the quantifier collapses to it; for it, generated smoke sequences run on both backends with every
exported observable.  Oracle: run() returns Results carrying every requested tag, at the requested
number of times; no exception escapes from pulser<->emulator glue.
"""
from __future__ import annotations

import os
import re

from hypothesis import strategies as st

from pbt import build, gen
from pbt.common import REPO, Result, cut

ID = "C31"
LEVEL = "exploration"
RULE = ("generated smoke runs (rydberg on emu-sv/emu-mps, XY on emu-mps; Lindblad noise on/off; SLM; custom "
        "interaction matrix; every Observable class exported by the two packages constructed - with explicit evaluation "
        "times, with the constructor's own defaults, with and without tag_suffix - and requested) under "
        "the installed pulser-core, which must satisfy the declared specifier; non-trivial = run returned Results "
        "with >=2 atoms and >=1 pulse; distinct = case hash")
ASSUMPTIONS = ["only one pulser-core release is available offline (the installed one); the quantifier over versions "
               "collapses to it", "wheelhouse /opt/veriftools/wheels contains no other pulser-core build"]


def budget(tier):
    return {"cases": 48 if tier == "quick" else 400, "shards": 16, "wall": 600 if tier == "quick" else 3000}


def declared_specifiers():
    out = []
    for rel in ("pyproject.toml", "ci/emu_base/pyproject.toml"):
        txt = open(os.path.join(REPO, rel)).read()
        m = re.search(r'"pulser-core(?:\[[^\]]*\])?\s*([^"]*)"', txt)
        if m:
            out.append((rel, m.group(1).strip()))
    return out


@st.composite
def _cases(draw):
    backend = draw(st.sampled_from(["sv", "mps", "mps"]))
    basis = "rydberg" if backend == "sv" else draw(st.sampled_from(["rydberg", "rydberg", "XY"]))
    seq = draw(gen.seq_cases(n_min=2, n_max=4, basis=basis, allow_mod=False, max_ops=3, dur_hi=40,
                             allow_local=(basis == "rydberg"), allow_dmm=(basis == "rydberg")))
    noise = draw(st.sampled_from([None, None, "dephasing", "depolarizing", "relaxation"]))
    if basis == "XY" and noise == "relaxation":
        noise = "dephasing"
    return {
        "backend": backend, "seq": seq, "noise": noise,
        "dt": draw(st.sampled_from([5, 10, 7])),
        "custom_matrix": draw(st.booleans()),
        "evals": draw(st.sampled_from([[1.0], [0.5, 1.0], [0.0, 1.0]])),
        # how each observable is constructed: explicit times / the constructor's own defaults / defaults + tag_suffix
        "ctor": draw(st.sampled_from(["explicit", "default", "default_suffix", "explicit_suffix"])),
        "seed": draw(st.integers(0, 2**20)),
    }


def strategy(tier):
    return _cases()


def check_case(case) -> Result:
    import random

    import numpy as np
    import pulser
    import torch
    from packaging.specifiers import SpecifierSet
    from packaging.version import Version

    r = Result()
    ver = Version(pulser.__version__)
    for rel, spec in declared_specifiers():
        if ver not in SpecifierSet(spec):
            r.discard = f"installed pulser-core {ver} not admitted by {rel}: {spec}"
            return r
    r.label(f"pulser-{ver}")
    random.seed(case["seed"])
    np.random.seed(case["seed"])
    torch.manual_seed(case["seed"])

    seq = build.sequence(case["seq"])
    n = len(case["seq"]["reg"]["ids"])
    evals = case["evals"]
    nm = None
    if case["noise"]:
        nm = pulser.NoiseModel(**{case["noise"] + "_rate": 0.5})
    kw = {}
    if case["custom_matrix"]:
        m = np.zeros((n, n))
        for i in range(n):
            for j in range(i + 1, n):
                m[i, j] = m[j, i] = 1.0 + 0.5 * i + 0.25 * j
        kw["interaction_matrix"] = m
        r.label("custom_matrix")
    if nm is not None:
        kw["noise_model"] = nm
        r.label("noise:" + case["noise"])
    if case["seq"]["slm"]:
        r.label("slm")
    r.label("basis:" + case["seq"]["basis"], "backend:" + case["backend"])

    import logging

    if case["backend"] == "sv":
        import emu_sv as pkg

        Config, Backend = pkg.SVConfig, pkg.SVBackend
        base = {"gpu": False}
        amp = {"r" * n: 1.0}
        state = cut(pkg.StateVector.from_state_amplitudes, eigenstates=("r", "g"), amplitudes=amp)
        if nm is not None:
            state = cut(pkg.DensityMatrix.from_state_amplitudes, eigenstates=("r", "g"), amplitudes=amp)
        oper = cut(pkg.DenseOperator.from_operator_repr, eigenstates=("r", "g"), n_qudits=n,
                   operations=[(1.0, [({"rr": 1.0}, {0})])])
    else:
        import emu_mps as pkg

        Config, Backend = pkg.MPSConfig, pkg.MPSBackend
        base = {"num_gpus_to_use": 0, "optimize_qubit_ordering": False}
        eig = ("r", "g") if case["seq"]["basis"] == "rydberg" else ("0", "1")
        one = "r" if eig[0] == "r" else "1"
        state = cut(pkg.MPS.from_state_amplitudes, eigenstates=eig, amplitudes={one * n: 1.0})
        oper = cut(pkg.MPO.from_operator_repr, eigenstates=eig, n_qudits=n,
                   operations=[(1.0, [({one + one: 1.0}, {0})])])

    obs = []
    want = {}
    ctor = case.get("ctor", "explicit")
    r.label("ctor:" + ctor)
    for name in pkg.__all__:
        o = getattr(pkg, name, None)
        if not (isinstance(o, type) and issubclass(o, pulser.backend.Observable)):
            continue
        if name == "Expectation" and case["backend"] == "sv" and nm is not None:
            continue  # documented: DenseOperator.expect supports state vectors only
        ckw = {}
        if ctor.startswith("explicit"):
            ckw["evaluation_times"] = evals
        if ctor.endswith("suffix"):
            ckw["tag_suffix"] = "v"
        if name == "Fidelity":
            inst = cut(o, state, **ckw)
        elif name == "Expectation":
            inst = cut(o, oper, **ckw)
        elif name == "EntanglementEntropy":
            inst = cut(o, 0, **ckw)
        elif name == "BitStrings":
            inst = cut(o, num_shots=20, **ckw)
        else:
            inst = cut(o, **ckw)
        obs.append(inst)
        want[inst.tag] = len(evals)
        r.label("obs:" + name)

    if ctor.startswith("default"):
        kw["default_evaluation_times"] = evals  # observables built without times are evaluated at the config's defaults
    cfg = cut(Config, dt=case["dt"], observables=obs, log_level=logging.ERROR, **base, **kw)
    backend = cut(Backend, seq, config=cfg)
    res = cut(backend.run)
    tags = set(res.get_result_tags())
    for t, cnt in want.items():
        if t not in tags:
            r.fail("missing_tag", f"{t} missing from results; have {sorted(tags)}")
        elif len(res.get_result_times(t)) != cnt:
            r.fail("wrong_time_count", f"{t}: times {res.get_result_times(t)} expected {cnt}")
    r.nontrivial = n >= 2
    return r
