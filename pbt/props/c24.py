"""C24: each Lindbladian noise channel becomes jump operators that represent, in the emulator's basis,
the physical process Pulser defines (compared as dissipator superoperators)."""
from __future__ import annotations

from hypothesis import strategies as st

from pbt import build, e2e, gen
from pbt.common import Result, cut

ID = "C24"
LEVEL = "exploration"
TOL = {"abs_rel_scale": 1e-10}
RULE = ("noise models with any subset of relaxation, dephasing, depolarizing and 1-3 effective-noise operators "
        "(arbitrary complex 2x2, or 3x3 with leakage) and rates over 4 decades, both interaction types (XY has no "
        "relaxation, by pulser); oracle: single-atom dissipator superoperator sum_L (L x conj L - 1/2 {LdL,.}) built "
        "from Pulser's own lindblad_data (coefficients x named projectors or matrices in Pulser's basis order), "
        "re-indexed to the emulator's (g,r[,x]) / (u,d[,x]) order, compared with the superoperator of "
        "SequenceData.lindblad_ops; non-trivial = >=1 channel whose operator is not invariant under the g<->r swap, or "
        "a 3-level operator with weight in the x row/column; distinct = case hash")
ASSUMPTIONS = ["comparing superoperators (not operator lists) because Pulser writes dephasing as sqrt(2G)|r><r| and the "
               "emulators as sqrt(G/2) sigma_z: same channel",
               "emulator basis order: index0=g (XY: u), index1=r (XY: d), index2=x; pulser's XY qubit states are |0>=u, |1>=d"]


def budget(tier):
    return {"cases": 1200 if tier == "quick" else 20000, "shards": 16, "wall": 600 if tier == "quick" else 3000}


def _c():
    return st.tuples(st.floats(-2, 2), st.floats(-2, 2)).map(lambda t: [round(t[0], 6), round(t[1], 6)])


@st.composite
def _cases(draw):
    basis = draw(st.sampled_from(["rydberg", "rydberg", "XY"]))
    leak = draw(st.booleans())
    d = 3 if leak else 2
    rate = st.one_of(st.sampled_from([1.0, 0.5]), st.floats(1e-3, 10.0).map(lambda v: round(v, 6)))
    nm = {}
    if basis == "rydberg" and draw(st.booleans()):
        nm["relaxation_rate"] = draw(rate)
    if draw(st.booleans()):
        nm["dephasing_rate"] = draw(rate)
    if draw(st.booleans()):
        nm["depolarizing_rate"] = draw(rate)
    k = draw(st.integers(1 if leak else 0, 3))
    if k:
        ops = []
        for _ in range(k):
            style = draw(st.sampled_from(["random", "unit", "unit", "sparse"]))
            if style == "random":
                m = [[draw(_c()) for _ in range(d)] for _ in range(d)]
            elif style == "unit":  # a single transition |a><b| in Pulser's order
                a, b = draw(st.integers(0, d - 1)), draw(st.integers(0, d - 1))
                m = [[[1.0, 0.0] if (i == a and j == b) else [0.0, 0.0] for j in range(d)] for i in range(d)]
            else:
                m = [[draw(_c()) if draw(st.booleans()) else [0.0, 0.0] for _ in range(d)] for _ in range(d)]
            if all(c == [0.0, 0.0] for row in m for c in row):
                m[0][d - 1] = [1.0, 0.0]
            ops.append(m)
        nm["eff_noise_opers"] = ops
        nm["eff_noise_rates"] = [draw(rate) for _ in range(k)]
    if leak:
        nm["with_leakage"] = True
    if not nm or (list(nm) == ["with_leakage"]):
        nm["dephasing_rate"] = 0.5
    return {"basis": basis, "nm": nm, "backend": draw(st.sampled_from(["sv", "mps"]))}


def strategy(tier):
    return _cases()


def _supers(nmd, basis, backend):
    """(S_emulator, S_pulser, eigenbasis) single-atom dissipator superoperators for a noise-model dict"""
    import numpy as np
    from emu_base import PulserData

    from pbt.oracles import dense

    nm = build.noise_model(nmd)
    seqc = {"reg": {"ids": ["a", "b"], "coords": [[0.0, 0.0], [7.0, 0.0]]}, "basis": basis, "device": "mock",
            "local": None, "dmm": None, "slm": None,
            "ops": [{"t": "pulse", "ch": "g", "amp": {"k": "const", "d": 8, "v": 1.0}, "det": {"k": "const", "d": 8, "v": 0.0}, "phase": 0.0}]}
    seq = build.sequence(seqc)
    cfg = (e2e.mps_config if backend == "mps" else e2e.sv_config)(dt=4, observables=e2e.observables(["occupation"], [1.0], None), noise_model=nm)
    pd = cut(PulserData, sequence=seq, config=cfg, dt=4)
    sd = cut(lambda: next(iter(pd.get_sequences())))
    eb = list(pd.hamiltonian.basis_data.eigenbasis)
    d = len(eb)
    want_ops = dense.pulser_collapse_ops(pd.hamiltonian.lindblad_data, eb)
    got_ops = [op.numpy() for op in sd.lindblad_ops]
    for op in got_ops:
        if op.shape != (d, d):
            raise ValueError(f"jump operator of shape {op.shape} for dim {d}")
    return dense.dissipator_super(got_ops, d), dense.dissipator_super(want_ops, d), eb, got_ops, want_ops


def check_case(case) -> Result:
    import numpy as np

    from pbt.oracles import dense

    r = Result()
    basis = case["basis"]
    nmd = case["nm"]
    leak = bool(nmd.get("with_leakage"))
    backend = "mps" if (basis == "XY" or leak) else case["backend"]
    S_got, S_want, eb, got_ops, want_ops = _supers(nmd, basis, backend)
    d = len(eb)
    scale = max(1.0, np.abs(S_want).max())
    r.label(basis, f"dim{d}", *[k.replace("_rate", "") for k in nmd if k.endswith("_rate")],
            "eff_noise" if "eff_noise_opers" in nmd else "no_eff")
    sw = np.eye(d)[[1, 0] + list(range(2, d))]
    S_sw = dense.dissipator_super([sw @ L @ sw.T for L in want_ops], d)
    asym = np.abs(S_sw - S_want).max() > 1e-9 * scale
    xw = d == 3 and any(np.abs(L[2, :2]).max() > 0 or np.abs(L[:2, 2]).max() > 0 for L in want_ops)
    r.nontrivial = bool(asym or xw)
    if asym:
        r.label("swap_sensitive")
    if xw:
        r.label("leak_transition")
    err = np.abs(S_got - S_want).max()
    if err > TOL["abs_rel_scale"] * scale:
        # attribute to a channel: superoperators are additive over channels
        eff = {k: v for k, v in nmd.items() if k in ("eff_noise_opers", "eff_noise_rates", "with_leakage")}
        has_eff = "eff_noise_opers" in eff
        blamed = []
        if has_eff:
            g0, w0, *_ = _supers(eff, basis, backend)
            if np.abs(g0 - w0).max() > TOL["abs_rel_scale"] * scale:
                blamed.append("eff_noise")
        else:
            g0 = w0 = 0
        for key in ("relaxation_rate", "dephasing_rate", "depolarizing_rate"):
            if key in nmd:
                g1, w1, *_ = _supers({**eff, key: nmd[key]}, basis, backend)
                if np.abs((g1 - g0) - (w1 - w0)).max() > TOL["abs_rel_scale"] * scale:
                    blamed.append(key.replace("_rate", ""))
        inter = "XY" if basis == "XY" else "ising"
        if "eff_noise" in blamed and d == 3 and basis != "XY":
            # is the difference exactly the known defect (only the top-left 2x2 block re-indexed)?
            bug_ops = []
            for m, rate in zip(nmd["eff_noise_opers"], nmd["eff_noise_rates"]):
                M = build.cplx(m) * np.sqrt(rate)
                M[:2, :2] = M[:2, :2][::-1, ::-1]
                bug_ops.append(M)
            if np.abs(g0 - dense.dissipator_super(bug_ops, d)).max() <= TOL["abs_rel_scale"] * scale:
                blamed[blamed.index("eff_noise")] = "eff_noise_x_levels_not_permuted"
        for b in blamed or ["unattributed"]:
            r.fail(f"channel_differs:{b}:{inter}:dim{d}",
                   f"max |S_emu - S_pulser| = {err:.3e} (scale {scale:.3g}); pulser eigenbasis {eb}; noise {list(nmd)}; "
                   f"emu ops={[np.round(o, 4).tolist() for o in got_ops][:3]} pulser(reindexed)={[np.round(o, 4).tolist() for o in want_ops][:3]}")
    return r
