"""C34: multi-trajectory results aggregate exactly n_trajectories simulations."""
from __future__ import annotations

from hypothesis import strategies as st

from pbt import build, e2e
from pbt.common import Result, cut

ID = "C34"
LEVEL = "exploration"
TOL = {"mean": 1e-12}
RULE = ("2-3 atom sequences, n_trajectories 1..50 (quick: <= 16), noise: state preparation errors, SPAM readout errors, "
        "amplitude, detuning and doppler fluctuations (shot-to-shot: one SequenceData per trajectory), dephasing / "
        "relaxation only (trajectory-invariant: one SequenceData repeated), and mixtures; both backends; observables "
        "occupation, correlation matrix, energy, bitstrings.  The harness wraps the backend's per-trajectory entry point "
        "and records every per-trajectory Results.  Oracle: number of recorded runs == n_trajectories; every "
        "mean-aggregated observable equals the arithmetic mean of the recorded values at each time (1e-12); the "
        "aggregated bitstring counter equals the sum of the recorded counters and its total is n_trajectories x shots; "
        "atom order and evaluation times are those of the single runs.  non-trivial = n_trajectories >= 2 with "
        "trajectories that differ from each other; distinct = case hash")
ASSUMPTIONS = ["per-trajectory results are observed by wrapping <Backend>._run_from_sequence_data at run time (no source hook)"]

NOISES = ["prep", "readout", "amp", "detuning", "doppler", "dephasing", "relaxation", "prep+amp", "dephasing+amp"]


def budget(tier):
    return {"cases": 96 if tier == "quick" else 1000, "shards": 16, "wall": 900 if tier == "quick" else 3300}


@st.composite
def _cases(draw, max_traj=16):
    return {"backend": draw(st.sampled_from(["sv", "mps"])), "n": draw(st.integers(2, 3)),
            "noise": draw(st.sampled_from(NOISES)), "n_traj": draw(st.one_of(st.sampled_from([1, 2, 3]), st.integers(1, max_traj))),
            "shots": draw(st.sampled_from([1, 7, 50])), "dur": draw(st.sampled_from([20, 40])), "dt": 10,
            "reorder": draw(st.booleans()), "seed": draw(st.integers(0, 2**20))}


def strategy(tier):
    return _cases(max_traj=16 if tier == "quick" else 50)


def _noise(name):
    from pulser import NoiseModel

    kw = {}
    for part in name.split("+"):
        if part == "prep":
            kw["state_prep_error"] = 0.3
        elif part == "readout":
            kw.update(p_false_pos=0.1, p_false_neg=0.2)
        elif part == "amp":
            kw["amp_sigma"] = 0.2
        elif part == "detuning":
            kw["detuning_sigma"] = 1.5
        elif part == "doppler":
            kw["temperature"] = 80.0
        elif part == "dephasing":
            kw["dephasing_rate"] = 3.0
        elif part == "relaxation":
            kw["relaxation_rate"] = 3.0
    return NoiseModel(**kw)


def check_case(case) -> Result:
    import contextlib
    import io
    import warnings
    from collections import Counter

    import numpy as np
    import pulser.backend as pb

    r = Result()
    n = case["n"]
    ids = ["b", "a", "c"][:n]
    seqc = {"reg": {"ids": ids, "coords": [[0.0, 0.0], [7.0, 0.0], [3.5, 6.5]][:n]}, "basis": "rydberg", "device": "mock",
            "local": None, "dmm": None, "slm": None,
            "ops": [{"t": "pulse", "ch": "g", "amp": {"k": "const", "d": case["dur"], "v": 8.0},
                     "det": {"k": "ramp", "d": case["dur"], "a": -4.0, "b": 6.0}, "phase": 0.4}]}
    seq = build.sequence(seqc)
    ev = [0.5, 1.0]
    obs = [pb.Occupation(evaluation_times=ev), pb.CorrelationMatrix(evaluation_times=ev), pb.Energy(evaluation_times=ev),
           pb.BitStrings(evaluation_times=[1.0], num_shots=case["shots"])]
    nm = _noise(case["noise"])
    kw = dict(dt=case["dt"], observables=obs, noise_model=nm, n_trajectories=case["n_traj"])
    backend = case["backend"]
    with warnings.catch_warnings():
        warnings.simplefilter("ignore")
        if backend == "sv":
            from emu_sv import SVBackend as B

            cfg = e2e.sv_config(**kw)
        else:
            from emu_mps import MPSBackend as B

            cfg = e2e.mps_config(precision=1e-6, optimize_qubit_ordering=case["reorder"], **kw)
    recorded = []
    orig = B._run_from_sequence_data

    def spy(sequence_data, config):
        res = orig(sequence_data, config)
        recorded.append(res)
        return res

    B._run_from_sequence_data = staticmethod(spy)
    e2e.seed_all(case["seed"])
    from pbt.common import CutRaised

    try:
        with contextlib.redirect_stdout(io.StringIO()):
            agg = cut(B(seq, config=cfg).run)
    except CutRaised as e:
        if backend == "mps" and "prep" in case["noise"] and isinstance(e.exc, ValueError) and e.frame.endswith("mps.py:make"):
            # the known C25 finding (fewer than two well-prepared atoms crash emu-mps) ends the run: excluded here, counted
            r.discard = "known C25 finding: trajectory with fewer than two well-prepared atoms"
            return r
        raise
    finally:
        B._run_from_sequence_data = staticmethod(orig)
    M = case["n_traj"]
    r.label(backend, "noise:" + case["noise"], "traj1" if M == 1 else ("traj2-5" if M <= 5 else "traj6+"))
    if len(recorded) != M:
        r.fail("trajectory_count:" + backend, f"{len(recorded)} simulations for n_trajectories={M} (noise {case['noise']})")
        return r
    if tuple(agg.atom_order) != tuple(ids):
        r.fail("atom_order", f"{agg.atom_order} vs {ids}")
    differ = False
    for tag in ("occupation", "correlation_matrix", "energy"):
        if tag not in agg.get_result_tags():
            r.fail("observable_missing_after_aggregation:" + tag, str(agg.get_result_tags()))
            continue
        ta = list(agg.get_result_times(tag))
        for rr in recorded:
            if list(rr.get_result_times(tag)) != ta:
                r.fail("times_differ_after_aggregation:" + tag, f"{ta} vs {rr.get_result_times(tag)}")
                break
        for j, t in enumerate(ta):
            vals = np.array([e2e.to_np(getattr(rr, tag)[j]) for rr in recorded], dtype=complex)
            mean = vals.mean(axis=0)
            got = np.asarray(e2e.to_np(getattr(agg, tag)[j]), dtype=complex)
            if np.abs(vals - vals[0]).max() > 1e-9:
                differ = True
            if got.shape != mean.shape or np.abs(got - mean).max() > TOL["mean"] * max(1.0, np.abs(mean).max()):
                r.fail(f"aggregate_is_not_the_mean:{tag}:{backend}", f"t={t}: aggregated {np.round(got, 8).tolist() if got.size < 8 else '...'} vs mean of {M} runs "
                                                                       f"{np.round(mean, 8).tolist() if mean.size < 8 else '...'}")
                break
    total = Counter()
    for rr in recorded:
        total.update(rr.bitstrings[-1])
    gotb = Counter(agg.bitstrings[-1])
    if sum(gotb.values()) != M * case["shots"]:
        r.fail("bitstring_total:" + backend, f"{sum(gotb.values())} != {M} x {case['shots']}")
    elif +gotb != +total:
        r.fail("bitstring_counts_are_not_the_sum:" + backend, f"{dict(gotb)} vs {dict(total)}")
    r.nontrivial = bool(M >= 2 and differ)
    return r
