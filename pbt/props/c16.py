"""C16: emu-sv open-system runs solve the Lindblad equation and stay physical."""
from __future__ import annotations

from hypothesis import strategies as st

from pbt import build, e2e, gen
from pbt.common import Result, cut

ID = "C16"
LEVEL = "exploration"
TOL = {"factor_on_krylov_tol_per_step": 10.0, "floor": 1e-9, "hermiticity": 1e-10, "trace": "tol", "min_eig": "-10*tol"}
RULE = ("noisy ground-rydberg sequences on emu-sv, 1-4 atoms (thorough: 5): global + retargeted local channel, phases, "
        "DMM, SLM, delays, all waveform kinds; noise = any subset of dephasing, relaxation, depolarizing and 1-2 "
        "effective-noise channels with arbitrary complex 2x2 operators, rates over 3 decades; dt incl. non-dividing; "
        "krylov_tolerance 1e-6..1e-10; optional initial density matrix (pure / mixed); one case in three judges the SECOND run of "
        "the same backend object, and a run must leave the configured initial state untouched; oracle: Liouvillian assembled by explicit "
        "kron formulas from Pulser's own collapse-operator definition (HamiltonianData.lindblad_data, re-indexed to "
        "(g,r)), expm chain; compared at every evaluation time: density matrix, occupation, correlation matrix, energy, "
        "second moment, variance, fidelity; validity: Hermitian, trace one, positive semidefinite; non-trivial = >=1 "
        "channel with rate*T >= 0.01, non-zero drive, >=3 steps; distinct = case hash")
ASSUMPTIONS = ["'Pulser's master-equation reference' is replaced by a dense Liouvillian integrator written from Pulser's "
               "definitions (pulser-simulation/QuTiP absent offline)",
               "interaction matrix taken from Pulser's HamiltonianData",
               "deviations fully reproduced by a harness model of the known Krylov stopping-rule defect (C07 finding) are "
               "reported as that known finding"]


def budget(tier):
    return {"cases": 192 if tier == "quick" else 3000, "shards": 16, "wall": 900 if tier == "quick" else 3300}


def _c():
    return st.tuples(st.floats(-1.5, 1.5), st.floats(-1.5, 1.5)).map(lambda t: [round(t[0], 4), round(t[1], 4)])


@st.composite
def _cases(draw, n_max=4):
    seq = draw(gen.seq_cases(n_min=1, n_max=n_max, basis="rydberg", allow_mod=False, max_ops=3, dur_hi=60, dmin=5.5, dmax=10.0, allow_no_global=True))
    n = len(seq["reg"]["ids"])
    rate = st.one_of(st.sampled_from([0.5, 2.0]), st.floats(0.01, 8.0).map(lambda v: round(v, 4)))
    nm = {}
    if draw(st.booleans()):
        nm["dephasing_rate"] = draw(rate)
    if draw(st.booleans()):
        nm["relaxation_rate"] = draw(rate)
    if draw(st.booleans()):
        nm["depolarizing_rate"] = draw(rate)
    k = draw(st.integers(0, 2))
    if k:
        nm["eff_noise_opers"] = [[[draw(_c()) for _ in range(2)] for _ in range(2)] for _ in range(k)]
        for m in nm["eff_noise_opers"]:
            if all(abs(c[0]) + abs(c[1]) < 1e-3 for row in m for c in row):
                m[0][1] = [1.0, 0.0]
        nm["eff_noise_rates"] = [draw(rate) for _ in range(k)]
    if not nm:
        nm["dephasing_rate"] = 1.0
    return {"seq": seq, "dt": draw(gen.dts()), "ktol": 10.0 ** draw(st.sampled_from([-6, -8, -10])),
            "evals": [draw(gen.eval_time_sets(3)) for _ in range(2)], "nm": nm,
            "init": draw(st.sampled_from([None, None, "mixed", "pure"])), "seed": draw(st.integers(0, 2**20)),
            # history: the same backend object is run a second time and the second run's results are the ones judged
            "rerun": draw(st.integers(0, 2)) == 0}


def strategy(tier):
    return _cases(n_max=4 if tier == "quick" else 5)


def check_case(case) -> Result:
    import warnings

    import numpy as np
    import pulser.backend as pb
    import torch
    from emu_sv import DensityMatrix, StateVector, SVBackend

    from pbt.oracles import dense

    r = Result()
    e2e.seed_all(case["seed"])
    seqc = case["seq"]
    seq = build.sequence(seqc)
    n = len(seqc["reg"]["ids"])
    D = 2**n
    T = float(seq.get_duration())
    if T / float(case["dt"]) > 300:
        r.discard = "too many steps"
        return r
    rng = np.random.default_rng(case["seed"])
    nm = build.noise_model(case["nm"])
    evals = [list(ev) for ev in case["evals"]]
    slm_end = e2e.slm_end_from_sampler(seq) if seqc["slm"] else 0.0
    if seqc["slm"] and slm_end > 0:
        evals[0] = sorted(set(evals[0] + [slm_end / T]))  # keep the mask end on the grid: sharp oracle
    fv = rng.normal(size=D) + 1j * rng.normal(size=D)
    fv /= np.linalg.norm(fv)
    fid = DensityMatrix.from_state_vector(StateVector(torch.tensor(fv), gpu=False))
    obs = [pb.StateResult(evaluation_times=evals[0]), pb.Occupation(evaluation_times=evals[0]),
           pb.CorrelationMatrix(evaluation_times=evals[1]), pb.Energy(evaluation_times=evals[1]),
           pb.EnergySecondMoment(evaluation_times=evals[1]), pb.EnergyVariance(evaluation_times=evals[1]),
           pb.Fidelity(fid, evaluation_times=evals[0])]
    kw = dict(dt=case["dt"], observables=obs, krylov_tolerance=case["ktol"], noise_model=nm)
    rho0 = None
    if case["init"] is not None:
        if case["init"] == "pure":
            v = rng.normal(size=D) + 1j * rng.normal(size=D)
            v /= np.linalg.norm(v)
            rho0 = np.outer(v, v.conj())
        else:
            rho0 = np.zeros((D, D), dtype=complex)
            ws = rng.random(3) + 0.1
            ws /= ws.sum()
            for w in ws:
                v = rng.normal(size=D) + 1j * rng.normal(size=D)
                v /= np.linalg.norm(v)
                rho0 += w * np.outer(v, v.conj())
        kw["initial_state"] = DensityMatrix(torch.tensor(rho0), gpu=False)
        r.label("initial_state:" + case["init"])
    with warnings.catch_warnings():
        warnings.simplefilter("ignore")
        cfg = cut(e2e.sv_config, **kw)
    # ---- reference
    hd, trajs = dense.from_sequence(seq, noise_model=nm)
    basis, loc, traj, reps = trajs[0]
    loc = {q: {k: np.real(np.asarray(v, dtype=complex)) for k, v in d.items()} for q, d in loc.items()}
    qids = list(seq.register.qubit_ids)
    rel = sorted({e for ev in evals for e in ev})
    grid = dense.emu_grid(T, float(case["dt"]), rel)
    U = dense.two_body(traj.interaction_matrix).copy()
    np.fill_diagonal(U, 0.0)
    masked = [qids.index(q) for q in (seqc["slm"] or [])]
    Um = U.copy()
    for m in masked:
        Um[m, :] = 0
        Um[:, m] = 0
    collapse = dense.pulser_collapse_ops(hd.lindblad_data, hd.basis_data.eigenbasis)

    def U_of_t(t):
        return Um if (masked and slm_end > 0 and t < slm_end) else U

    def make_ref(step=None):
        return dense.Reference("rydberg", qids, loc, U_of_t, grid, d=2, collapse=collapse, rho0=rho0).run(step)

    ref = make_ref()
    backend = SVBackend(seq, config=cfg)
    try:
        res = cut(backend.run)
    except Exception as e:  # noqa: BLE001
        inner = getattr(e, "exc", None)
        if isinstance(inner, RecursionError) and "did not converge" in str(inner):
            # the documented, honest refusal of C07 (dt*|generator| too large for the allowed Krylov dimension, e.g. the
            # detuning of an SLM mask with a long step): no result is returned, so nothing can be wrong; counted
            r.discard = "krylov_exp refused: did not converge within the allowed dimension"
            return r
        raise
    if case.get("rerun"):
        first, first_occ = res, [e2e.to_np(x).copy() for x in res.occupation]
        res = cut(backend.run)
        r.label("second_run_of_the_same_backend")
        if any(np.abs(e2e.to_np(a) - b).max() > 0 for a, b in zip(first.occupation, first_occ)):
            r.fail("second_run_changed_the_first_results", "occupations of the Results returned by the first run changed during the second run")
    if rho0 is not None and np.abs(cfg.initial_state.data.numpy() - rho0).max() > 1e-14:
        r.fail("run_modified_the_configured_initial_state", f"max change {np.abs(cfg.initial_state.data.numpy() - rho0).max():.3e}; "
               f"trace now {np.trace(cfg.initial_state.data.numpy()).real:.6f}")

    nsteps = len(grid) - 1
    tol = TOL["factor_on_krylov_tol_per_step"] * case["ktol"] * nsteps + TOL["floor"]
    rates = [v for k, v in case["nm"].items() if k.endswith("_rate")] + list(case["nm"].get("eff_noise_rates", []))
    drive = float(np.abs(ref.amp).max())
    r.nontrivial = bool(max(rates) * T * 1e-3 >= 0.01 and drive > 0 and nsteps >= 3)
    r.label(f"n{n}", *[k.replace("_rate", "") for k in case["nm"] if k.endswith("_rate")],
            "eff_noise" if "eff_noise_opers" in case["nm"] else "no_eff", "slm" if seqc["slm"] else "noslm",
            "local" if seqc["local"] else "nolocal", "dmm" if seqc["dmm"] else "nodmm")
    model = {}

    def model_ref(faithful_expm):
        """reference evolved with a harness model of the implementation's Krylov exponentiation (its stopping rule; with
        faithful_expm also torch.linalg.matrix_exp for the projected matrix, as the implementation computes it)"""
        if faithful_expm not in model:
            from pbt.oracles import krylov_model

            def step(A, v):
                out, conv, _ = krylov_model.krylov_exp_prev_norm(A, v, case["ktol"], hermitian=False,
                                                                 expm=krylov_model.torch_expm if faithful_expm else None)
                return out
            model[faithful_expm] = make_ref(step)
        return model[faithful_expm]

    def H_for(rf, k):
        return rf.H[k - 1] if k > 0 else rf.h_step(0)

    def normH(k):
        return max(1.0, float(np.linalg.norm(H_for(ref, k), 2)))

    def agree(tag, vals, want_of, scale_of=None):
        for t_rel, v in zip(res.get_result_times(tag), vals):
            try:
                k = ref.index_of(float(t_rel) * T, tol=1e-6 * max(1.0, T))
            except KeyError:
                r.fail("result_at_unrequested_time:" + tag, f"t={t_rel!r}")
                return
            sc = scale_of(k) if scale_of else 1.0
            err = float(np.max(np.abs(e2e.to_np(v) - want_of(ref, k)))) / sc
            if not err <= tol:
                m_faith = float(np.max(np.abs(e2e.to_np(v) - want_of(model_ref(True), k)))) / sc
                m_rule = float(np.max(np.abs(e2e.to_np(v) - want_of(model_ref(False), k)))) / sc
                detail = (f"{tag} t={float(t_rel):.6g}: error {err:.3e} > tol {tol:.3e} (ktol={case['ktol']:g}, steps={nsteps}, n={n}, "
                          f"noise={list(case['nm'])}); distance to the faithful model (stopping rule + torch matrix_exp) {m_faith:.3e}, "
                          f"to the stopping-rule model with an accurate exponential {m_rule:.3e}")
                if m_faith <= 0.02 * err + 1e-13 * nsteps:
                    if m_rule <= 0.1 * err:
                        r.fail("krylov_tolerance_not_met:explained_by_stopping_rule", detail)
                    else:
                        r.fail("krylov_tolerance_not_met:explained_by_torch_matrix_exp_accuracy", detail)
                else:
                    r.fail("differs_from_lindblad_reference:" + tag, detail)
                return

    rhos = [s.data.numpy() for s in res.state]
    for t_rel, rho in zip(res.get_result_times("state"), rhos):
        if np.abs(rho - rho.conj().T).max() > TOL["hermiticity"] + tol:
            r.fail("density_matrix_not_hermitian", f"t={t_rel}: {np.abs(rho - rho.conj().T).max():.3e}")
            break
        if abs(np.trace(rho) - 1) > tol:
            r.fail("density_matrix_trace", f"t={t_rel}: trace {np.trace(rho)!r}")
            break
        lam = np.linalg.eigvalsh((rho + rho.conj().T) / 2).min()
        if lam < -10 * tol:
            r.fail("density_matrix_not_positive", f"t={t_rel}: smallest eigenvalue {lam:.3e}")
            break
    agree("state", rhos, lambda rf, k: rf.states[k])
    agree("occupation", res.occupation, lambda rf, k: rf.occupation(k))
    agree("correlation_matrix", res.correlation_matrix, lambda rf, k: rf.correlation(k))
    agree("energy", res.energy, lambda rf, k: np.real(rf.expect(k, H_for(rf, k))), scale_of=normH)
    agree("energy_second_moment", res.energy_second_moment, lambda rf, k: np.real(rf.expect(k, H_for(rf, k) @ H_for(rf, k))),
          scale_of=lambda k: normH(k) ** 2)
    agree("energy_variance", res.energy_variance,
          lambda rf, k: np.real(rf.expect(k, H_for(rf, k) @ H_for(rf, k))) - np.real(rf.expect(k, H_for(rf, k))) ** 2,
          scale_of=lambda k: normH(k) ** 2)
    agree("fidelity", res.fidelity, lambda rf, k: np.real(np.vdot(fv, rf.states[k] @ fv)))
    return r
