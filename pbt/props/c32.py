"""C32: the qubit-order optimiser returns a valid, no-worse permutation; permutation helpers are consistent."""
from __future__ import annotations

from hypothesis import strategies as st

from pbt.common import Result, cut

ID = "C32"
LEVEL = "exploration"
RULE = ("symmetric matrices of size 1..30 (1..12 in the quick tier's bulk): random dense, sparse, banded-then-"
        "shuffled, block, with ties (few distinct values), zero rows, negative entries, 1/r^6-like from shuffled "
        "chains/rings/grids; clauses: result is a permutation of range(n); weighted bandwidth of the permuted |M| <= "
        "that of |M|; inv(inv p)=p; permute(permute(x,p),inv p)=x for strings, lists, tuples, vectors, matrices; all "
        "helpers move the same elements (element k of the result is element p[k] of the input); non-trivial = n>=3 "
        "and matrix not all-zero; distinct = case hash. For n<=7 the brute-force optimum is recorded as a statistic "
        "only (the property claims no optimality).")
ASSUMPTIONS = ["torch.randperm inside the optimiser is seeded from the case"]


def budget(tier):
    return {"cases": 240 if tier == "quick" else 6000, "shards": 16, "wall": 600 if tier == "quick" else 3000}


@st.composite
def _cases(draw):
    n = draw(st.one_of(st.integers(1, 6), st.integers(1, 12), st.integers(1, 30)))
    style = draw(st.sampled_from(["dense", "sparse", "band_shuffled", "ties", "zero_rows", "geom", "blocks"]))
    npairs = n * (n - 1) // 2
    vals = draw(st.lists(st.one_of(st.floats(-10, 10).map(lambda v: round(v, 4)), st.sampled_from([0.0, 1.0, -1.0, 2.0])),
                         min_size=npairs, max_size=npairs))
    return {"n": n, "style": style, "vals": vals, "seed": draw(st.integers(0, 2**31 - 1)),
            "perm": list(draw(st.permutations(list(range(n))))), "density": draw(st.sampled_from([0.1, 0.3, 0.6]))}


def strategy(tier):
    return _cases()


def _bandwidth(M):
    import numpy as np

    n = M.shape[0]
    i, j = np.indices((n, n))
    return float(np.max(np.abs(M * (j - i)))) if n else 0.0


def check_case(case) -> Result:
    import itertools

    import numpy as np
    import torch
    import emu_mps.optimatrix as om

    r = Result()
    n = case["n"]
    rng = np.random.default_rng(case["seed"])
    M = np.zeros((n, n))
    pairs = [(i, j) for i in range(n) for j in range(i + 1, n)]
    style = case["style"]
    for (i, j), v in zip(pairs, case["vals"]):
        M[i, j] = M[j, i] = v
    if style == "sparse":
        mask = rng.random((n, n)) < case["density"]
        mask = np.triu(mask, 1)
        M = M * (mask + mask.T)
    elif style == "band_shuffled":
        i, j = np.indices((n, n))
        M = M * (np.abs(i - j) <= 2)
        p = rng.permutation(n)
        M = M[p][:, p]
    elif style == "ties":
        M = np.sign(M) * np.round(np.abs(M) / 5) * 5
    elif style == "zero_rows":
        for k in rng.choice(n, size=max(1, n // 3), replace=False):
            M[k, :] = 0
            M[:, k] = 0
    elif style == "geom":
        shape = rng.integers(0, 3)
        if shape == 0:
            pos = np.stack([np.arange(n) * 6.0, np.zeros(n)], 1)
        elif shape == 1:
            a = 2 * np.pi * np.arange(n) / max(n, 1)
            pos = 8 * np.stack([np.cos(a), np.sin(a)], 1)
        else:
            c = max(1, int(np.ceil(np.sqrt(n))))
            pos = np.stack([(np.arange(n) % c) * 6.0, (np.arange(n) // c) * 6.0], 1)
        pos = pos[rng.permutation(n)]
        d = np.linalg.norm(pos[:, None] - pos[None], axis=-1) + np.eye(n)
        M = 5.42e6 / d**6 * (1 - np.eye(n))
    elif style == "blocks":
        b = np.arange(n) % max(1, min(3, n))
        M = M * (b[:, None] == b[None, :])
    r.label(style, f"n<={6 if n <= 6 else 12 if n <= 12 else 30}")
    r.nontrivial = n >= 3 and bool(np.any(M != 0))
    torch.manual_seed(case["seed"])
    Mt = torch.tensor(M, dtype=torch.float64)
    perm = cut(om.minimize_bandwidth, Mt)
    p = [int(v) for v in perm.tolist()]
    if sorted(p) != list(range(n)):
        r.fail("not_a_permutation", f"{p} for n={n}")
        return r
    bw0 = _bandwidth(np.abs(M))
    Mp = np.abs(M)[p][:, p]
    bw1 = _bandwidth(Mp)
    if bw1 > bw0 * (1 + 1e-12) + 1e-300:
        r.fail("bandwidth_worse", f"bandwidth {bw1} > original {bw0} with perm {p}")
    if p != list(range(n)):
        r.label("perm_not_identity")
    if 2 <= n <= 7 and r.nontrivial:
        best = min(_bandwidth(np.abs(M)[list(q)][:, list(q)]) for q in itertools.permutations(range(n)))
        r.label("optimal" if bw1 <= best * (1 + 1e-9) else "suboptimal(stat only)")
    # the matrix seen by permute_tensor must be the same re-indexing the harness used
    got = cut(om.permute_tensor, torch.tensor(np.abs(M)), perm).numpy()
    if not np.array_equal(got, Mp):
        r.fail("permute_tensor_2d_convention", "permute_tensor(M,p) != M[p][:,p]")

    # helper consistency on an independent random permutation
    q = torch.tensor(case["perm"], dtype=torch.long)
    ql = case["perm"]
    labels = [chr(ord("a") + k % 26) + str(k) for k in range(n)]
    chars = "".join(chr(ord("A") + k % 50) for k in range(n))
    vec = torch.arange(n) * 10 + 3
    mat = torch.arange(n * n).reshape(n, n)
    pl = cut(om.permute_list, labels, q)
    pt = cut(om.permute_tuple, tuple(labels), q)
    ps = cut(om.permute_string, chars, q)
    pv = cut(om.permute_tensor, vec, q)
    pm = cut(om.permute_tensor, mat, q)
    iq = cut(om.inv_permutation, q)
    if pl != [labels[k] for k in ql]:
        r.fail("permute_list_convention", f"{pl} for perm {ql}")
    if list(pt) != pl or not isinstance(pt, tuple):
        r.fail("permute_tuple_inconsistent", f"{pt} vs {pl}")
    if ps != "".join(chars[k] for k in ql):
        r.fail("permute_string_inconsistent", f"{ps}")
    if pv.tolist() != [int(vec[k]) for k in ql]:
        r.fail("permute_vector_inconsistent", f"{pv.tolist()}")
    if n and pm.tolist() != [[int(mat[a, b]) for b in ql] for a in ql]:
        r.fail("permute_matrix_inconsistent", "matrix rows/cols moved differently from the list helper")
    if sorted(iq.tolist()) != list(range(n)) or cut(om.inv_permutation, iq).tolist() != ql:
        r.fail("inverse_not_involutive", f"inv(inv(p)) = {cut(om.inv_permutation, iq).tolist()} != {ql}")
    if cut(om.permute_list, pl, iq) != labels or cut(om.permute_string, ps, iq) != chars \
            or list(cut(om.permute_tuple, pt, iq)) != labels \
            or cut(om.permute_tensor, pv, iq).tolist() != vec.tolist() \
            or cut(om.permute_tensor, pm, iq).tolist() != mat.tolist():
        r.fail("inverse_does_not_undo", f"perm {ql}, inverse {iq.tolist()}")
    if cut(om.eye_permutation, n).tolist() != list(range(n)):
        r.fail("eye_permutation_wrong", "")
    return r
