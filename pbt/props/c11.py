"""C11: MPS / MPO operations are faithful to the same operations on the dense vectors and matrices."""
from __future__ import annotations

from hypothesis import strategies as st

from pbt.common import Result, cut

ID = "C11"
LEVEL = "exploration"
TOL = {"exact_rel": 1e-10, "truncating": "sqrt(N-1)*precision + 1e-7*|result| (eigh floor)"}
RULE = ("random MPS / MPO with 2-8 sites, bonds 1-16, dims 2/3, in the three eigenstate bases (r,g), (0,1), (g,r,x); "
        "operations: +, scalar*, inner (both argument orders), norm, overlap, MPO.apply_to, MPO @ MPO, MPO + MPO, "
        "scalar*MPO, MPO.expect, expect_batch (batch of arbitrary single-site operators), get_correlation_matrix "
        "(default n and a custom operator), entanglement_entropy at every bond (vs SVD of the dense bipartition), "
        "MPS.from_state_amplitudes (arbitrary amplitude dictionaries, must normalise), MPO.from_operator_repr (weighted "
        "sums of tensor products of QuditOps, a QuditOp on several qudits); oracle: numpy on the dense objects obtained "
        "by a harness contraction; exact operations 1e-10 relative, truncating ones within the truncation budget; every "
        "operand of a non-in-place operation must be unchanged; non-trivial = >=3 sites with some bond >=2; distinct = "
        "case hash")
ASSUMPTIONS = ["pulser validates that QuditOp keys are two eigenstate letters and target sets disjoint, so nested symbolic "
               "sub-operators are not constructible through the public API and are not generated",
               "site 0 is the most significant tensor factor; basis index 0 = g/0, 1 = r/1, 2 = x"]


def budget(tier):
    return {"cases": 1200 if tier == "quick" else 20000, "shards": 16, "wall": 600 if tier == "quick" else 3000}


def _c():
    return st.tuples(st.floats(-2, 2), st.floats(-2, 2)).map(lambda t: [round(t[0], 6), round(t[1], 6)])


BASES = {"rg": ("r", "g"), "01": ("0", "1"), "rgx": ("g", "r", "x")}
ORDER = {"rg": "gr", "01": "01", "rgx": "grx"}  # index -> letter in the emulator's internal order


@st.composite
def _cases(draw):
    basis = draw(st.sampled_from(["rg", "rg", "01", "rgx"]))
    n = draw(st.integers(2, 8 if basis != "rgx" else 6))
    letters = ORDER[basis]
    nstr = draw(st.integers(1, 6))
    strs = draw(st.lists(st.lists(st.sampled_from(letters), min_size=n, max_size=n).map("".join), min_size=nstr, max_size=nstr, unique=True))
    amps = [draw(_c()) for _ in strs]
    if all(abs(a[0]) + abs(a[1]) < 1e-3 for a in amps):
        amps[0] = [1.0, 0.0]
    keys = [a + b for a in letters for b in letters]
    ops = []
    for _ in range(draw(st.integers(1, 3))):
        perm = draw(st.permutations(list(range(n))))
        k = draw(st.integers(0, min(n, 3)))
        tens, pos = [], 0
        for _ in range(k):
            if pos >= n:
                break
            size = draw(st.integers(1, min(2, n - pos)))
            targets = sorted(perm[pos:pos + size])
            pos += size
            kk = draw(st.lists(st.sampled_from(keys), min_size=1, max_size=3, unique=True))
            tens.append([{x: draw(_c()) for x in kk}, targets])
        ops.append([draw(_c()), tens])
    return {"basis": basis, "n": n, "bond_a": draw(st.sampled_from([1, 2, 3, 4, 8, 16])), "bond_b": draw(st.sampled_from([1, 2, 3, 5])),
            "bond_o": draw(st.sampled_from([1, 2, 3])), "precision": 10.0 ** draw(st.sampled_from([-5, -8, -10])),
            "strs": strs, "amps": amps, "ops": ops, "scalar": draw(_c()), "centre": draw(st.sampled_from([None, None, 0, "last", "mid"])),
            "seed": draw(st.integers(0, 2**31 - 1))}


def strategy(tier):
    return _cases()


def check_case(case) -> Result:
    import numpy as np
    import torch
    from emu_mps import MPO, MPS, inner

    from pbt.oracles import dense, tn
    from pbt.props.c10 import _rand_mps

    r = Result()
    n = case["n"]
    basis = case["basis"]
    eig = BASES[basis]
    letters = ORDER[basis]
    d = len(eig)
    D = d**n
    rng = np.random.default_rng(case["seed"])
    prec = case["precision"]

    def close(a, b, what, rel=TOL["exact_rel"], scale=None):
        a = np.asarray(a)
        b = np.asarray(b)
        if a.shape != b.shape:
            r.fail(what, f"shape {a.shape} vs {b.shape}")
            return
        s = (max(1.0, float(np.abs(b).max()) if b.size else 1.0)) if scale is None else scale
        e = float(np.abs(a - b).max()) if a.size else 0.0
        if not e <= rel * s:
            r.fail(what, f"max diff {e:.3e} > {rel * s:.3e}")

    def tbound(vec_norm):
        return np.sqrt(n - 1) * prec + 1e-7 * vec_norm

    fa = _rand_mps(rng, n, d, case["bond_a"])
    fb = _rand_mps(rng, n, d, case["bond_b"])
    A = MPS(fa, precision=prec, num_gpus_to_use=0, eigenstates=eig)
    B = MPS(fb, precision=prec, num_gpus_to_use=0, eigenstates=eig)
    if case["centre"] is not None:
        c = {0: 0, "last": n - 1, "mid": n // 2}[case["centre"]]
        A.orthogonalize(c)
    a = tn.mps_to_dense(A.factors)
    b = tn.mps_to_dense(B.factors)
    a0, b0 = a.copy(), b.copy()
    na, nb = np.linalg.norm(a), np.linalg.norm(b)
    r.label(basis, f"n{n}", "bond>=2" if max(case["bond_a"], case["bond_b"]) >= 2 else "product")
    r.nontrivial = n >= 3 and max(f.shape[2] for f in A.factors) >= 2
    z = complex(*case["scalar"])

    def unchanged(what):
        if np.abs(tn.mps_to_dense(A.factors) - a0).max() > 1e-12 * max(1.0, np.abs(a0).max()):
            r.fail("operand_mutated:" + what, "left/state operand changed")
        if np.abs(tn.mps_to_dense(B.factors) - b0).max() > 1e-12 * max(1.0, np.abs(b0).max()):
            r.fail("operand_mutated:" + what, "right operand changed")

    # ---- exact scalar-valued operations
    close(complex(cut(A.inner, B)), np.vdot(a, b), "inner", scale=max(na * nb, 1e-300))
    close(complex(cut(inner, B, A)), np.vdot(b, a), "inner_fn", scale=max(na * nb, 1e-300))
    close(float(cut(A.overlap, B)), abs(np.vdot(a, b)) ** 2, "overlap", scale=max((na * nb) ** 2, 1e-300))
    unchanged("inner")
    close(float(cut(B.norm)), nb, "norm", scale=max(nb, 1e-300))
    b0 = tn.mps_to_dense(B.factors)  # norm() may re-centre (documented): the vector must be the same
    close(b0, b, "norm_changed_state", scale=max(np.abs(b).max(), 1e-300))
    # ---- sum / scaling
    S = cut(lambda: A + B)
    s_d = tn.mps_to_dense(S.factors)
    if np.linalg.norm(s_d - (a + b)) > tbound(np.linalg.norm(a + b)):
        r.fail("add", f"|A+B - dense| = {np.linalg.norm(s_d - (a + b)):.3e} > truncation bound {tbound(np.linalg.norm(a + b)):.3e}")
    unchanged("add")
    Z = cut(lambda: z * A)
    close(tn.mps_to_dense(Z.factors), z * a, "rmul", scale=max(np.abs(a).max() * max(abs(z), 1e-300), 1e-300))
    unchanged("rmul")

    # ---- MPO: random and from operator repr
    dims = [1] + [case["bond_o"]] * (n - 1) + [1]
    of = [torch.tensor((rng.normal(size=(dims[i], d, d, dims[i + 1])) + 1j * rng.normal(size=(dims[i], d, d, dims[i + 1]))) / np.sqrt(dims[i] * d))
          for i in range(n)]
    O = MPO(of, num_gpus_to_use=0)
    Od = tn.mpo_to_dense(of)
    nO = float(np.linalg.norm(Od, 2))
    r_ap = cut(O.apply_to, A)
    want = Od @ a
    if np.linalg.norm(tn.mps_to_dense(r_ap.factors) - want) > tbound(np.linalg.norm(want)):
        r.fail("apply_to", f"|O A - dense| = {np.linalg.norm(tn.mps_to_dense(r_ap.factors) - want):.3e} > {tbound(np.linalg.norm(want)):.3e}")
    unchanged("apply_to")
    close(complex(cut(O.expect, A)), np.vdot(a, Od @ a), "mpo_expect", scale=max(nO * na**2, 1e-300))
    unchanged("expect")
    if np.abs(tn.mpo_to_dense(O.factors) - Od).max() > 1e-12 * max(1.0, np.abs(Od).max()):
        r.fail("operand_mutated:mpo", "MPO changed by apply_to / expect")
    # composition, sum and scaling of operators (MPO @ MPO truncates at the default 1e-5)
    of2 = [torch.tensor((rng.normal(size=(dims[i], d, d, dims[i + 1])) + 1j * rng.normal(size=(dims[i], d, d, dims[i + 1]))) / np.sqrt(dims[i] * d))
           for i in range(n)]
    O2 = MPO(of2, num_gpus_to_use=0)
    O2d = tn.mpo_to_dense(of2)
    P = cut(lambda: O @ O2)
    Pd = tn.mpo_to_dense(P.factors)
    wantP = Od @ O2d
    if np.linalg.norm(Pd - wantP) > np.sqrt(n - 1) * 1e-5 + 1e-7 * np.linalg.norm(wantP):
        r.fail("mpo_matmul", f"|O@O2 - dense|_F = {np.linalg.norm(Pd - wantP):.3e} > {np.sqrt(n - 1) * 1e-5 + 1e-7 * np.linalg.norm(wantP):.3e}")
    close(tn.mpo_to_dense(cut(lambda: O + O2).factors), Od + O2d, "mpo_add")
    close(tn.mpo_to_dense(cut(lambda: z * O).factors), z * Od, "mpo_rmul", scale=max(1.0, abs(z) * np.abs(Od).max()))
    if np.abs(tn.mpo_to_dense(O.factors) - Od).max() > 1e-12 * max(1.0, np.abs(Od).max()) or \
            np.abs(tn.mpo_to_dense(O2.factors) - O2d).max() > 1e-12 * max(1.0, np.abs(O2d).max()):
        r.fail("operand_mutated:mpo", "MPO operand changed by @ / + / scalar*")

    # ---- per-site expectations, correlation matrices, entropy (on a normalised copy as the backends do)
    An = MPS([f.clone() for f in A.factors], precision=prec, num_gpus_to_use=0, eigenstates=eig, orthogonality_center=A.orthogonality_center)
    an = a / max(na, 1e-300)
    An = cut(lambda: (1 / An.norm()) * An)
    kops = int(rng.integers(1, 4))
    batch = rng.normal(size=(kops, d, d)) + 1j * rng.normal(size=(kops, d, d))
    eb = cut(An.expect_batch, torch.tensor(batch)).numpy()
    want_eb = np.array([[np.vdot(an, tn.site_op_times_dense(batch[j], q, n, d, an)) for j in range(kops)] for q in range(n)])
    close(eb, want_eb, "expect_batch", scale=max(1.0, np.abs(batch).max() * d))
    nop = dense.n_op(d)
    cm = cut(An.get_correlation_matrix).numpy()
    want_cm = np.array([[np.vdot(an, tn.site_op_times_dense(nop, i, n, d, tn.site_op_times_dense(nop, j, n, d, an))) for j in range(n)] for i in range(n)])
    close(cm, want_cm.real, "correlation_matrix_default")
    Hh = batch[0] + batch[0].conj().T  # Hermitian custom operator: <X_i X_j> is real for i != j
    cm2 = cut(An.get_correlation_matrix, torch.tensor(Hh)).numpy()
    want_cm2 = np.array([[np.vdot(an, tn.site_op_times_dense(Hh, i, n, d, tn.site_op_times_dense(Hh, j, n, d, an))) for j in range(n)] for i in range(n)])
    # the diagonal convention pinned by the repository's own test is C_ii = <X_i> (one application), not <X_i^2>
    diag_want = np.array([np.vdot(an, tn.site_op_times_dense(Hh, i, n, d, an)) for i in range(n)])
    off = ~np.eye(n, dtype=bool)
    sc2 = max(1.0, np.abs(Hh).max() ** 2 * d * d)
    if cm2.shape != (n, n):
        r.fail("correlation_matrix_custom", f"shape {cm2.shape}")
    else:
        e_off = float(np.abs(cm2 - want_cm2.real)[off].max()) if n > 1 else 0.0
        if e_off > TOL["exact_rel"] * sc2:
            HhT = Hh.T
            alt = np.array([[np.vdot(an, tn.site_op_times_dense(HhT, i, n, d, tn.site_op_times_dense(HhT, j, n, d, an))) for j in range(n)] for i in range(n)])
            kind = "transposed_operator" if float(np.abs(cm2 - alt.real)[off].max()) <= TOL["exact_rel"] * sc2 else "other"
            r.fail("correlation_matrix_custom:offdiagonal:" + kind, f"max diff {e_off:.3e} (scale {sc2:.3g}) for a Hermitian complex single-site operator")
        e_diag = float(np.abs(np.diag(cm2) - diag_want.real).max())
        e_diag_T = float(np.abs(np.diag(cm2) - np.array([np.vdot(an, tn.site_op_times_dense(Hh.T, i, n, d, an)) for i in range(n)]).real).max())
        if min(e_diag, e_diag_T) > TOL["exact_rel"] * sc2:
            r.fail("correlation_matrix_custom:diagonal", f"max diff {e_diag:.3e}")
    for bnd in range(n - 1):
        ee = float(cut(An.entanglement_entropy, bnd))
        sv = np.linalg.svd(an.reshape(d ** (bnd + 1), -1), compute_uv=False)
        p = sv**2
        p = p[p > 1e-300]
        want_e = float(-(p * np.log(p)).sum())
        if abs(ee - want_e) > 1e-8 + 1e-8 * abs(want_e):
            r.fail("entanglement_entropy", f"bond {bnd}: {ee!r} vs {want_e!r}")
            break
        if ee < -1e-10 or ee > min(bnd + 1, n - bnd - 1) * np.log(d) + 1e-8:
            r.fail("entanglement_entropy_range", f"bond {bnd}: {ee!r}")
            break
    close(tn.mps_to_dense(An.factors), an, "observables_changed_state", scale=max(np.abs(an).max(), 1e-300))

    # ---- construction from abstract representations
    amp = {s: complex(*x) for s, x in zip(case["strs"], case["amps"])}
    ref = np.zeros(D, dtype=complex)
    for s, x in amp.items():
        idx = 0
        for ch in s:
            idx = idx * d + letters.index(ch)
        ref[idx] += x
    nr = np.linalg.norm(ref)
    if nr > 1e-6:
        ref = ref / nr
        M = cut(MPS.from_state_amplitudes, eigenstates=eig, amplitudes=amp)
        got = tn.mps_to_dense(M.factors)
        # the constructor builds the state by repeated truncating additions at the new state's own (default) precision,
        # applied to the amplitudes as given, and normalises afterwards: a truncation error eps on a vector of norm nr
        # becomes eps / nr on the normalised state
        if np.linalg.norm(got - ref) > 2 * len(amp) * (np.sqrt(n - 1) * M.precision + 1e-7) / min(1.0, nr) + 1e-9:
            r.fail("from_state_amplitudes", f"|MPS - dense| = {np.linalg.norm(got - ref):.3e}; amplitudes {amp}")
        if abs(np.linalg.norm(got) - 1) > 1e-6:
            r.fail("from_state_amplitudes_not_normalised", f"norm {np.linalg.norm(got)!r}")
    refO = np.zeros((D, D), dtype=complex)
    operations = []
    for coeff, tens in case["ops"]:
        gates = [np.eye(d, dtype=complex) for _ in range(n)]
        tl = []
        for qd, targets in tens:
            m = np.zeros((d, d), dtype=complex)
            for k, w in qd.items():
                m[letters.index(k[0]), letters.index(k[1])] += complex(*w)
            for t in targets:
                gates[t] = m
            tl.append(({k: complex(*w) for k, w in qd.items()}, set(targets)))
        full = np.array([[1.0 + 0j]])
        for g in gates:
            full = np.kron(full, g)
        refO += complex(*coeff) * full
        operations.append((complex(*coeff), tl))
    Q = cut(MPO.from_operator_repr, eigenstates=eig, n_qudits=n, operations=operations)
    close(tn.mpo_to_dense(Q.factors), refO, "mpo_from_operator_repr")
    return r
