"""C30: emu-sv automatic-differentiation gradients equal finite differences of the emulated results, and are finite."""
from __future__ import annotations

from hypothesis import strategies as st

from pbt import e2e
from pbt.common import Result, cut

ID = "C30"
LEVEL = "exploration"
TOL = {"rel": 2e-5, "fd_noise": "40*krylov_tolerance/h", "richardson": "|fd(h)-fd(h/2)| must be < 1e-5*max(1,|g|), else the entry is skipped and counted"}
RULE = ("1-5 atoms.  level 'step': chains of 1-3 EvolveStateVector.apply steps with generated per-atom omega, delta, phi "
        "(all-zero phases = the real code path, mixed, non-zero), interaction matrix and initial state, all requiring grad; "
        "level 'backend': SVBackend._run_from_sequence_data on a SequenceData whose per-step omega/delta/phi tensors "
        "require grad; level 'pulser': SVBackend(seq).run() on sequences whose waveform parameters (constant / ramp / "
        "Blackman amplitude, constant / ramp detuning, leading or trailing flat and zero segments) are torch tensors.  "
        "Loss = generated real function of the results (weighted occupations, energy, overlap with a generated vector).  "
        "Oracle: central finite differences in float64 with step h and h/2 (entries whose two estimates disagree are "
        "skipped and counted, never judged); |g_ad - g_fd| <= 2e-5*max(1,|g|) + 40*krylov_tol/h; when the emulator's own "
        "finite difference disagrees, finite differences of an exact dense model of the same run arbitrate (the emulator's "
        "forward error near eigenvectors -- the C07 finding -- pollutes its finite differences); Pulser parameters whose "
        "sample gradients are inconsistent inside pulser itself are skipped and labelled; every gradient entry "
        "finite (a missing gradient for an input the loss depends on counts as wrong).  non-trivial = >=2 atoms with "
        "non-zero interaction and a gradient entry of magnitude > 1e-6; distinct = case hash")
ASSUMPTIONS = ["finite differences are the reference: krylov_tolerance 1e-12 keeps their noise ~1e-8 at h=1e-4",
               "at exactly-zero phases the function is evaluated through the complex path when perturbed: same mathematics"]


def budget(tier):
    return {"cases": 160 if tier == "quick" else 2400, "shards": 16, "wall": 900 if tier == "quick" else 3300}


def _real(lo, hi):
    return st.floats(lo, hi).map(lambda v: round(v, 4))


@st.composite
def _cases(draw):
    level = draw(st.sampled_from(["step", "step", "backend", "pulser", "pulser"]))
    n = draw(st.integers(1, 4 if level != "step" else 5))
    steps = draw(st.integers(1, 3))
    pm = draw(st.sampled_from(["zero", "mixed", "all"]))
    c = {"level": level, "n": n, "steps": steps, "phase_mode": pm,
         "omega": [[draw(_real(0.0, 8.0)) for _ in range(n)] for _ in range(steps)],
         "delta": [[draw(_real(-8.0, 8.0)) for _ in range(n)] for _ in range(steps)],
         "phi": [[0.0 if (pm == "zero" or (pm == "mixed" and draw(st.booleans()))) else draw(_real(0.2, 3.0)) for _ in range(n)] for _ in range(steps)],
         "U": [draw(st.one_of(st.just(0.0), _real(-12.0, 12.0))) for _ in range(n * (n - 1) // 2)],
         "dt": draw(st.sampled_from([5.0, 10.0, 20.0])), "loss": draw(st.sampled_from(["occupation", "overlap", "energy", "mix"])),
         "seed": draw(st.integers(0, 2**20)),
         # the loss also involves results at an intermediate evaluation time (backend / pulser levels)
         "mid": draw(st.booleans())}
    if level == "pulser":
        c["amp_kind"] = draw(st.sampled_from(["const", "ramp", "blackman", "const_then_ramp", "delay_then_const", "ramp_to_zero"]))
        c["det_kind"] = draw(st.sampled_from(["const", "ramp", "zero"]))
        c["dur"] = draw(st.sampled_from([16, 24, 40]))
        c["dt"] = draw(st.sampled_from([4, 8, 5]))
    return c


def strategy(tier):
    return _cases()


class _EnergyNotDifferentiable(Exception):
    def __init__(self, mode, text):
        self.mode, self.text = mode, text
        super().__init__(text)


def check_case(case) -> Result:
    import numpy as np
    import torch

    r = Result()
    rng = np.random.default_rng(case["seed"])
    n = case["n"]
    D = 2**n
    ktol = 1e-12
    wocc = torch.tensor(rng.normal(size=n))
    rvec = torch.tensor(rng.normal(size=D) + 1j * rng.normal(size=D))
    rvec = rvec / rvec.norm()
    Mq = rng.normal(size=(D, D)) + 1j * rng.normal(size=(D, D))
    Mq = torch.tensor((Mq + Mq.conj().T) / 2)
    U0 = np.zeros((n, n))
    k = 0
    for i in range(n):
        for j in range(i + 1, n):
            U0[i, j] = U0[j, i] = case["U"][k]
            k += 1
    level = case["level"]
    # intermediate evaluation time in the loss: needs >= 2 steps at the backend level; energy losses keep their final-time form
    mid = bool(case.get("mid")) and level in ("backend", "pulser") and case["loss"] != "energy" and (level == "pulser" or case["steps"] >= 2)
    r.label(level, f"n{n}", "phase:" + case["phase_mode"], "loss:" + case["loss"])
    if mid:
        r.label("loss_involves_an_intermediate_time")

    def occupations(psi):
        out = []
        for i in range(n):
            v = psi.view(2**i, 2, -1)[:, 1]
            out.append(torch.linalg.vector_norm(v) ** 2)
        return torch.stack(out)

    def loss_from_state(psi, H=None):
        kind = case["loss"]
        val = torch.zeros((), dtype=torch.float64)
        if kind in ("occupation", "mix"):
            val = val + (wocc * occupations(psi)).sum()
        if kind in ("overlap", "mix"):
            val = val + torch.vdot(rvec, psi).real + (torch.vdot(rvec, psi).abs() ** 2)
        if kind == "energy":
            # at this level a fixed Hermitian quadratic form stands in for an energy (the Hamiltonian object returned by
            # the stepper is not part of the results); the Energy observable itself is used at the backend level
            val = val + torch.vdot(psi, Mq @ psi).real
        return val

    # ------------------------------------------------------------------ parameters and forward function per level
    if level in ("step", "backend"):
        params = {"omega": torch.tensor(case["omega"], dtype=torch.float64), "delta": torch.tensor(case["delta"], dtype=torch.float64),
                  "phi": torch.tensor(case["phi"], dtype=torch.float64), "U": torch.tensor(U0, dtype=torch.float64)}
        psi0 = rng.normal(size=D) + 1j * rng.normal(size=D)
        psi0 /= np.linalg.norm(psi0)
        if level == "step":
            params["psi_re"] = torch.tensor(psi0.real.copy())
            params["psi_im"] = torch.tensor(psi0.imag.copy())

        def forward(p):
            from emu_sv.time_evolution import EvolveStateVector

            if level == "step":
                psi = torch.complex(p["psi_re"], p["psi_im"])
                H = None
                for s in range(case["steps"]):
                    psi, H = cut(EvolveStateVector.apply, case["dt"] * 1e-3, p["omega"][s], p["delta"][s], p["phi"][s], p["U"], psi, ktol, None)
                return loss_from_state(psi, H)
            from emu_base import HamiltonianType, SequenceData
            from emu_sv import SVBackend
            import pulser.backend as pb

            steps = case["steps"]
            tt = [case["dt"] * i for i in range(steps + 1)]
            Uten = p["U"]
            sd = SequenceData(omega=p["omega"].to(torch.complex128), delta=p["delta"].to(torch.complex128), phi=p["phi"].to(torch.complex128),
                              interaction_matrix=lambda t: Uten, qubit_ids=tuple(f"q{i}" for i in range(n)), bad_atoms=tuple([False] * n),
                              lindblad_ops=[], state_prep_error=0.0, target_times=tt, eigenstates=["r", "g"], hamiltonian_type=HamiltonianType.Rydberg)
            evs = [1.0 / steps, 1.0] if mid else [1.0]
            obs = [pb.Occupation(evaluation_times=evs), pb.StateResult(evaluation_times=evs)]
            if case["loss"] == "energy":
                obs.append(pb.Energy(evaluation_times=[1.0]))
            cfg = e2e.sv_config(dt=case["dt"], krylov_tolerance=ktol, observables=obs)
            from pbt.common import CutRaised

            try:
                res = cut(SVBackend._run_from_sequence_data, sd, cfg)
            except CutRaised as e:
                if case["loss"] == "energy" and isinstance(e.exc, TypeError) and "hamiltonian.py" in e.frame:
                    raise _EnergyNotDifferentiable("complex_phase_crash", str(e)) from e
                raise
            occ = res.occupation[-1]
            if case["loss"] == "energy":
                return res.energy[-1].real.to(torch.float64) if torch.is_tensor(res.energy[-1]) else torch.as_tensor(res.energy[-1])
            if case["loss"] == "occupation":
                return (wocc * occ).sum() + ((wocc * res.occupation[0]).sum() if mid else 0.0)
            return loss_from_state(res.state[-1].data) + (loss_from_state(res.state[0].data) if mid else 0.0)
    else:
        import pulser
        import pulser.backend as pb
        from pulser.waveforms import BlackmanWaveform, CompositeWaveform, ConstantWaveform, RampWaveform

        d = case["dur"]
        a0 = max(case["omega"][0][0], 0.5)
        a1 = max(case["omega"][-1][-1], 0.3)
        params = {"a0": torch.tensor(a0, dtype=torch.float64), "a1": torch.tensor(a1, dtype=torch.float64),
                  "d0": torch.tensor(case["delta"][0][0], dtype=torch.float64), "d1": torch.tensor(case["delta"][-1][-1], dtype=torch.float64)}
        coords = [(7.0 * i, 0.0) for i in range(n)]

        def build_sequence(p):
            reg = pulser.Register({f"q{i}": c for i, c in enumerate(coords)})
            seq = pulser.Sequence(reg, pulser.devices.MockDevice)
            seq.declare_channel("g", "rydberg_global")
            ak = case["amp_kind"]
            if ak == "const":
                amp = ConstantWaveform(d, p["a0"])
            elif ak == "ramp":
                amp = RampWaveform(d, p["a0"], p["a1"])
            elif ak == "blackman":
                amp = BlackmanWaveform(d, p["a0"] * 0.1)
            elif ak == "const_then_ramp":
                amp = CompositeWaveform(ConstantWaveform(d // 2, p["a0"]), RampWaveform(d - d // 2, p["a0"], p["a1"]))
            elif ak == "ramp_to_zero":
                amp = RampWaveform(d, p["a0"], 0.0)
            else:
                amp = ConstantWaveform(d, p["a0"])
            dk = case["det_kind"]
            det = ConstantWaveform(d, p["d0"]) if dk == "const" else (RampWaveform(d, p["d0"], p["d1"]) if dk == "ramp" else ConstantWaveform(d, 0.0))
            if ak == "delay_then_const":
                seq.delay(8, "g")
            seq.add(pulser.Pulse(amp, det, 0.0), "g")
            if ak == "delay_then_const":
                seq.delay(8, "g")
            return seq

        def forward(p):
            from emu_sv import SVBackend

            seq = build_sequence(p)
            evs = [0.5, 1.0] if mid else [1.0]
            cfg = e2e.sv_config(dt=case["dt"], krylov_tolerance=ktol, observables=[pb.Occupation(evaluation_times=evs), pb.StateResult(evaluation_times=evs)])
            res = cut(SVBackend(seq, config=cfg).run)
            if case["loss"] in ("occupation", "energy"):
                return (wocc * res.occupation[-1]).sum() + ((wocc * res.occupation[0]).sum() if mid else 0.0)
            return loss_from_state(res.state[-1].data) + (loss_from_state(res.state[0].data) if mid else 0.0)

        r.label("amp:" + case["amp_kind"], "det:" + case["det_kind"])

    # ------------------------------------------------------------------ exact dense model of the same run (arbiter)
    from pbt.oracles import dense as _dense
    import scipy.linalg as _sla

    rv_np, Mq_np, w_np = rvec.numpy(), Mq.numpy(), wocc.numpy()

    def np_loss(psi, H_last=None):
        kind = case["loss"]
        occ = np.array([np.vdot(psi, _dense.site_op(_dense.n_op(), i, n) @ psi).real for i in range(n)])
        val = 0.0
        if kind in ("occupation", "mix") or (kind == "energy" and level == "pulser"):
            val += float((w_np * occ).sum())
        if kind in ("overlap", "mix"):
            ov = np.vdot(rv_np, psi)
            val += float(ov.real + abs(ov) ** 2)
        if kind == "energy" and level == "step":
            val += float(np.vdot(psi, Mq_np @ psi).real)
        if kind == "energy" and level == "backend":
            val += float(np.vdot(psi, H_last @ psi).real)
        return val

    def dense_at(name, idx, delta):
        p = {k: v.clone().numpy().astype(float) for k, v in params.items()}
        p[name].reshape(-1)[idx] += delta
        if level in ("step", "backend"):
            psi = (p["psi_re"] + 1j * p["psi_im"]) if level == "step" else np.eye(D, dtype=complex)[0]
            H = None
            extra_ = 0.0
            for s_ in range(case["steps"]):
                Um = np.triu(p["U"], 1)
                Um = Um + Um.T
                H = _dense.hamiltonian("rydberg", p["omega"][s_], p["delta"][s_], p["phi"][s_], Um, d=2)
                psi = _sla.expm(-1j * case["dt"] * 1e-3 * H) @ psi
                if mid and s_ == 0:
                    extra_ = np_loss(psi, H)
            return np_loss(psi, H) + extra_
        seq_ = build_sequence({k: float(v) for k, v in p.items()})
        from pbt.props import c01 as _c01

        refs_, info_ = _c01.reference({"seq": {"device": "mock", "slm": None}, "evals": [[0.5, 1.0] if mid else [1.0]], "dt": case["dt"], "custom": None, "cutoff": 0.0}, seq_)
        val_ = np_loss(refs_[0].states[len(info_["grid"]) - 1])
        if mid:
            val_ += np_loss(refs_[0].states[refs_[0].index_of(0.5 * info_["T"], tol=1e-6 * max(1.0, info_["T"]))])
        return val_

    # ------------------------------------------------------------------ autograd
    leaves = {k: v.clone().requires_grad_(True) for k, v in params.items()}
    energy_obs = level == "backend" and case["loss"] == "energy"
    try:
        val = forward(leaves)
    except _EnergyNotDifferentiable as e:
        r.fail("energy_observable_not_differentiable:" + e.mode, e.text[-600:])
        r.nontrivial = True
        return r
    if not torch.is_tensor(val) or not val.requires_grad:
        r.fail("result_not_differentiable:" + level, f"loss from the results has no grad_fn (type {type(val).__name__})")
        return r
    try:
        grads = torch.autograd.grad(val, list(leaves.values()), allow_unused=True)
    except RuntimeError as e:
        # raised by the autograd engine itself (no frame of the package in the traceback), e.g. "one of the variables needed
        # for gradient computation has been modified by an inplace operation": the gradient of this loss cannot be had
        if "emu_" in "".join(__import__("traceback").format_tb(e.__traceback__)):
            raise
        r.fail(f"backward_raised:{level}" + (":intermediate_time" if mid else ""), f"{type(e).__name__}: {str(e)[:400]}; loss={case['loss']}, n={n}, steps={case['steps']}")
        r.nontrivial = True
        return r
    g_ad = {k: (g.detach().clone() if g is not None else None) for k, g in zip(leaves, grads)}

    # ------------------------------------------------------------------ finite differences on a generated subset of entries
    def f_at(name, idx, delta):
        p = {k: v.clone() for k, v in params.items()}
        flat = p[name].reshape(-1)
        flat[idx] = flat[idx] + delta
        with torch.no_grad():
            return float(forward(p))

    unusable = set()
    jacs, smp_values = {}, None

    def at_flat_samples(name):
        """the parameter moves a sample that is exactly equal to a neighbouring sample of the same signal (a tie of the
        piecewise PCHIP slope rule: zero secant)"""
        if smp_values is None or name not in jacs:
            return False
        L = smp_values.numel() // 2
        for k_ in range(smp_values.numel()):
            if jacs[name][k_] == 0:
                continue
            lo_, hi_ = (0, L) if k_ < L else (L, 2 * L)
            if (k_ + 1 < hi_ and smp_values[k_ + 1] == smp_values[k_]) or (k_ - 1 >= lo_ and smp_values[k_ - 1] == smp_values[k_]):
                return True
        return False

    def agrees_off_the_tie(name, idx):
        """autograd and central finite differences at the same parameters moved off the tie by 1e-2"""
        p = {k: v.clone() for k, v in params.items()}
        p[name].reshape(-1)[idx] += 1e-2
        lv_ = {k: v.clone().requires_grad_(True) for k, v in p.items()}
        g_ = torch.autograd.grad(forward(lv_), lv_[name], allow_unused=True)[0]
        if g_ is None:
            return False

        def f_(dl):
            q = {k: v.clone() for k, v in p.items()}
            q[name].reshape(-1)[idx] += dl
            with torch.no_grad():
                return float(forward(q))
        fd_ = (f_(1e-4) - f_(-1e-4)) / 2e-4
        return abs(float(g_.reshape(-1)[idx]) - fd_) <= TOL["rel"] * max(1.0, abs(fd_)) + 40 * ktol / 1e-4

    if level == "pulser":
        from pulser._hamiltonian_data import HamiltonianData

        def samples_of(p):
            hd_ = HamiltonianData.from_sequence(build_sequence(p))
            loc_ = next(iter(hd_.noisy_samples)).samples.to_nested_dict(all_local=True, samples_type="tensor")["Local"]["ground-rydberg"]["q0"]
            return torch.cat([torch.as_tensor(loc_["amp"]).real.reshape(-1), torch.as_tensor(loc_["det"]).real.reshape(-1)])

        lv = {k: v.clone().requires_grad_(True) for k, v in params.items()}
        smp = samples_of(lv)
        smp_values = smp.detach().clone()
        for name in params:
            jac = torch.zeros(smp.numel(), dtype=torch.float64)
            if smp.requires_grad:
                for k_ in range(smp.numel()):
                    g_ = torch.autograd.grad(smp[k_], lv[name], retain_graph=True, allow_unused=True)[0]
                    jac[k_] = 0.0 if g_ is None else float(g_)
            pp, pm_ = {k: v.clone() for k, v in params.items()}, {k: v.clone() for k, v in params.items()}
            pp[name] = pp[name] + 1e-5
            pm_[name] = pm_[name] - 1e-5
            with torch.no_grad():
                fdj = (samples_of(pp) - samples_of(pm_)) / 2e-5
            jacs[name] = jac
            if float((jac - fdj).abs().max()) > 1e-6:
                # pulser's own differentiable sampling is inconsistent for this parameter (e.g. the last sample of a
                # RampWaveform carries no gradient w.r.t. its end value): not something the emulators can be held to
                unusable.add(name)
                r.label("pulser_sample_gradient_inconsistent:" + name)
    entries = []
    for name, v in params.items():
        if name in unusable:
            continue
        for idx in range(v.numel()):
            entries.append((name, idx))
    order = rng.permutation(len(entries))
    entries = [entries[i] for i in order[:10]]
    h = 1e-4
    checked = 0
    skipped = 0
    big = False
    for name, idx in entries:
        if name == "U":
            i, j = divmod(idx, n)
            if i == j:
                continue
        if name == "omega" and level != "pulser" and float(params[name].reshape(-1)[idx]) - h < 0:
            pass  # omega is just a real coefficient of the operator at this level: negative values are fine
        fd1 = (f_at(name, idx, h) - f_at(name, idx, -h)) / (2 * h)
        fd2 = (f_at(name, idx, h / 2) - f_at(name, idx, -h / 2)) / h
        g = g_ad[name]
        gv = float(g.reshape(-1)[idx]) if g is not None else None
        scale = max(1.0, abs(fd2))
        if abs(fd1 - fd2) > 1e-5 * scale:
            skipped += 1
            continue
        checked += 1
        where = f"{name}[{idx}]"
        if gv is None:
            if abs(fd2) > 1e-6:
                r.fail(f"gradient_missing:{level}:{name}", f"autograd returns None for {where} but the finite-difference derivative is {fd2:.6e}")
                break
            continue
        if not np.isfinite(gv):
            r.fail(f"gradient_not_finite:{level}:{name}", f"{where}: autograd {gv!r}, finite differences {fd2:.6e}" +
                   (f" (amp {case['amp_kind']}, det {case['det_kind']})" if level == "pulser" else ""))
            break
        if abs(gv) > 1e-6:
            big = True
        if abs(gv - fd2) > TOL["rel"] * scale + 40 * ktol / h:
            fd_ref = (dense_at(name, idx, h) - dense_at(name, idx, -h)) / (2 * h)
            if abs(gv - fd_ref) <= TOL["rel"] * max(1.0, abs(fd_ref)) + 1e-7 and not energy_obs:
                # the gradient agrees with the exact dense model of the run; the emulator's own finite difference is off
                # because its forward pass is (known C07 finding: premature Krylov stop near eigenvectors)
                r.label("emulator_fd_polluted_by_forward_error")
                continue
            kind = f"gradient_differs_from_finite_differences:{level}:{name}" + (":zero_phase" if (name == "phi" and float(params[name].reshape(-1)[idx]) == 0.0) else "")
            if energy_obs:
                # the Energy observable is evaluated with a Hamiltonian object built outside the autograd graph
                kind = "energy_observable_not_differentiable:explicit_dependence_dropped"
            elif level == "pulser" and at_flat_samples(name) and agrees_off_the_tie(name, idx):
                # PCHIP's slope rule is piecewise (harmonic mean / zero); exactly on a tie (equal neighbouring samples)
                # autograd differentiates the "zero" branch although the interpolant is smooth along the parameter
                kind = f"pchip_gradient_on_exactly_flat_samples:{name}"
            r.fail(kind,
                   f"{where}: autograd {gv:.8e} vs finite differences {fd2:.8e} (h={h}, h/2 estimate {fd1:.8e}), dense-model finite differences {fd_ref:.8e}; "
                   f"n={n}, steps={case['steps']}, loss={case['loss']}")
            break
    for name, g in g_ad.items():
        if g is not None and not bool(torch.isfinite(g).all()):
            r.fail(f"gradient_not_finite:{level}:{name}", f"non-finite entries in the gradient w.r.t. {name}: {g.reshape(-1)[:6].tolist()}" +
                   (f" (amp {case['amp_kind']}, det {case['det_kind']})" if level == "pulser" else ""))
            break
    r.info = {"checked": checked, "skipped_fd_unreliable": skipped}
    r.nontrivial = bool(n >= 2 and np.any(U0) and big and checked > 0)
    return r
