"""C01: emu-sv noiseless runs reproduce the dynamics of the sampled piecewise-constant Pulser Hamiltonian."""
from __future__ import annotations

from hypothesis import strategies as st

from pbt import build, e2e, gen
from pbt.common import Result, cut

ID = "C01"
LEVEL = "exploration"
TOL = {"factor_on_krylov_tol_per_step": 10.0, "floor": 1e-9, "disc_K": None}
RULE = ("noiseless ground-rydberg sequences, 1-6 atoms (thorough: up to 9), full grammar: global + retargeted local "
        "channel, phases, DMM detuning maps, SLM masks, delays, composite/interpolated/Blackman/ramp waveforms, "
        "modulation; dt incl. non-dividing and <1; krylov_tolerance 1e-6..1e-12; per-observable evaluation-time sets "
        "incl. 0 and off-grid; optional initial state, interaction_cutoff, user interaction matrix (also with a "
        "non-zero diagonal, which must be ignored); oracle: independent dense expm chain built from Pulser's samples "
        "(scipy PCHIP at my own grid midpoints) and Pulser's interaction matrix; compared: state vector incl. global "
        "phase, occupation, correlation matrix, energy, second moment, variance, fidelity, expectation; a tenth of the cases "
        "check the discretisation clause instead: smooth end-vanishing pulses (Blackman amplitude, ramped detuning) run at "
        "dt and dt/2 against a fine reference (0.25 ns exact steps on the interpolated samples) must show second-order "
        "convergence (error ratio <= 0.45); non-trivial = "
        ">=2 atoms, non-zero interaction and drive, >=3 steps, final state differs from the initial one; distinct = "
        "case hash")
ASSUMPTIONS = ["'Pulser's reference emulator' is replaced by a dense numpy/scipy integrator written from Pulser's "
               "conventions (pulser-simulation/QuTiP is not installed offline)",
               "interaction matrix taken from Pulser's HamiltonianData (formula is C23's business)",
               "when an SLM mask ends strictly inside a step, either the masked or the full matrix for that step is accepted"]


def budget(tier):
    return {"cases": 320 if tier == "quick" else 5000, "shards": 16, "wall": 900 if tier == "quick" else 3300}


@st.composite
def _cases(draw, n_max=6):
    seq = draw(gen.seq_cases(n_min=1, n_max=n_max, basis="rydberg", allow_mod=True, max_ops=4, dur_hi=100, dmin=5.0, dmax=11.0, allow_no_global=True))
    n = len(seq["reg"]["ids"])
    c = {"seq": seq, "dt": draw(gen.dts()), "ktol": 10.0 ** draw(st.sampled_from([-6, -8, -10, -10, -12])),
         "evals": [draw(gen.eval_time_sets(3)) for _ in range(3)],
         "add_mask_end": draw(st.integers(0, 4)) > 0,
         "init": None, "cutoff": draw(st.sampled_from([0.0, 0.0, 0.0, 1.0, 50.0])), "custom": None,
         "seed": draw(st.integers(0, 2**20))}
    if draw(st.integers(0, 3)) == 0:
        k = draw(st.integers(1, min(4, 2**n)))
        strs = draw(st.lists(st.lists(st.sampled_from("rg"), min_size=n, max_size=n).map("".join), min_size=k, max_size=k, unique=True))
        c["init"] = {s: [draw(st.floats(-1, 1).map(lambda v: round(v, 4))), draw(st.floats(-1, 1).map(lambda v: round(v, 4)))] for s in strs}
        if all(abs(a[0]) + abs(a[1]) < 1e-3 for a in c["init"].values()):
            c["init"][strs[0]] = [1.0, 0.0]
    if n >= 2 and draw(st.integers(0, 3)) == 0:
        npairs = n * (n - 1) // 2
        c["custom"] = {"vals": draw(st.lists(st.one_of(st.sampled_from([0.0, 5.0, -3.0]), st.floats(-40, 40).map(lambda v: round(v, 4))),
                                             min_size=npairs, max_size=npairs)),
                       "diag": draw(st.sampled_from([0.0, 0.0, 7.0]))}
    return c


@st.composite
def _disc_cases(draw):
    """discretisation clause: smooth pulses that vanish at both ends, run at dt and dt/2"""
    reg = draw(gen.registers(2, 4, dmin=6.0, dmax=10.0))
    d = draw(st.sampled_from([48, 64, 96]))
    return {"kind": "disc", "reg": reg, "d": d, "area": draw(st.sampled_from([1.5, 3.1, 5.0])),
            "det": [draw(st.sampled_from([-6.0, -2.0, 0.0])), draw(st.sampled_from([0.0, 4.0, 9.0]))],
            "phase": draw(st.sampled_from([0.0, 1.1])), "dt": draw(st.sampled_from([8, 4])), "seed": draw(st.integers(0, 2**20))}


def strategy(tier):
    main = _cases(n_max=6 if tier == "quick" else 9)
    return st.integers(0, 9).flatmap(lambda k: _disc_cases() if k == 0 else main)


def _check_disc(case) -> Result:
    """The emulated state converges to the continuous-time limit of the sampled (interpolated) Hamiltonian with second
    order in dt: halving dt must cut the distance to a fine reference (0.25 ns steps, exact exponentials) by clearly
    more than a first-order scheme would."""
    import numpy as np
    import pulser.backend as pb
    from emu_sv import SVBackend

    r = Result()
    seqc = {"reg": case["reg"], "basis": "rydberg", "device": "mock", "local": None, "dmm": None, "slm": None,
            "ops": [{"t": "pulse", "ch": "g", "amp": {"k": "blackman", "d": case["d"], "area": case["area"]},
                     "det": {"k": "ramp", "d": case["d"], "a": case["det"][0], "b": case["det"][1]}, "phase": case["phase"]}]}
    seq = build.sequence(seqc)
    fine = {"seq": seqc, "evals": [[1.0]], "dt": 0.25, "custom": None, "cutoff": 0.0}
    refs, info = reference(fine, seq)
    exact = refs[0].states[len(info["grid"]) - 1]
    errs = []
    for dt in (case["dt"], case["dt"] / 2):
        cfg = cut(e2e.sv_config, dt=dt, krylov_tolerance=1e-12, observables=[pb.StateResult(evaluation_times=[1.0])])
        res = cut(SVBackend(seq, config=cfg).run)
        errs.append(float(np.linalg.norm(res.state[-1].data.numpy() - exact)))
    r.label("discretisation", f"n{len(case['reg']['ids'])}")
    r.info = {"err_dt": errs[0], "err_half_dt": errs[1]}
    r.nontrivial = errs[0] > 1e-6
    if errs[0] > 1e-6 and errs[1] > 0.45 * errs[0] + 1e-7:
        r.fail("discretisation_not_second_order", f"distance to the fine reference: {errs[0]:.3e} at dt={case['dt']}, {errs[1]:.3e} at dt={case['dt'] / 2} "
                                                     f"(ratio {errs[1] / errs[0]:.2f}; a midpoint scheme gives ~0.25, a first-order one ~0.5)")
    return r


def reference(case, seq, backend="sv", psi0=None, extra_rel_times=(), step=None):
    """Independent piecewise-constant reference(s).  Returns (list of Reference, info)."""
    import numpy as np

    from pbt.oracles import dense

    seqc = case["seq"]
    mod = seqc["device"] == "mod"
    hd, trajs = dense.from_sequence(seq, with_modulation=mod)
    basis, loc, traj, reps = trajs[0]
    loc = {q: {k: np.real(np.asarray(v, dtype=complex)) for k, v in d.items()} for q, d in loc.items()}
    qids = list(seq.register.qubit_ids)
    n = len(qids)
    T = float(seq.get_duration(include_fall_time=mod))
    rel = sorted({e for ev in case["evals"] for e in ev} | set(extra_rel_times))
    slm_end = e2e.slm_end_from_sampler(seq) if seqc["slm"] else 0.0
    grid = dense.emu_grid(T, float(case["dt"]), rel)
    if case.get("custom") is not None:
        U = np.zeros((n, n))
        k = 0
        for i in range(n):
            for j in range(i + 1, n):
                U[i, j] = U[j, i] = case["custom"]["vals"][k]
                k += 1
    else:
        U = dense.two_body(traj.interaction_matrix).copy()
    U[np.abs(U) < case.get("cutoff", 0.0)] = 0.0
    np.fill_diagonal(U, 0.0)
    masked = [qids.index(q) for q in (seqc["slm"] or [])]
    Um = U.copy()
    for m in masked:
        Um[m, :] = 0
        Um[:, m] = 0
    kind = "rydberg" if basis == "ground-rydberg" else "XY"
    straddle = bool(masked) and slm_end > 0 and all(abs(g - slm_end) > 1e-9 for g in grid) and slm_end < T
    refs = []
    rules = ["start", "mid"] if straddle else ["start"]
    for rule in rules:
        def U_of_t(t, rule=rule, grid=grid):
            if not masked or slm_end <= 0:
                return U
            if rule == "mid":
                k = grid.index(t)
                t = 0.5 * (grid[k] + grid[k + 1])
            return Um if t < slm_end else U
        refs.append(dense.Reference(kind, qids, loc, U_of_t, grid, d=2, psi0=psi0).run(step))
    return refs, {"T": T, "grid": grid, "slm_end": slm_end, "straddle": straddle, "U": U, "kind": kind, "n": n, "loc": loc}


def check_case(case) -> Result:
    import numpy as np
    import torch
    import pulser.backend as pb
    from emu_sv import DenseOperator, StateVector, SVBackend

    if case.get("kind") == "disc":
        return _check_disc(case)
    r = Result()
    e2e.seed_all(case["seed"])
    seqc = case["seq"]
    seq = build.sequence(seqc)
    mod = seqc["device"] == "mod"
    n = len(seqc["reg"]["ids"])
    D = 2**n
    T = float(seq.get_duration(include_fall_time=mod))
    if T / float(case["dt"]) > 1500:
        r.discard = "too many steps"
        return r
    rng = np.random.default_rng(case["seed"])
    evals = [list(ev) for ev in case["evals"]]
    slm_end = e2e.slm_end_from_sampler(seq) if seqc["slm"] else 0.0
    if seqc["slm"] and slm_end > 0 and case["add_mask_end"]:
        evals[0] = sorted(set(evals[0] + [slm_end / T]))
    case = dict(case, evals=evals)
    # fidelity state and expectation operator
    fv = rng.normal(size=D) + 1j * rng.normal(size=D)
    fv /= np.linalg.norm(fv)
    fid_state = StateVector(torch.tensor(fv), gpu=False)
    Om = rng.normal(size=(D, D)) + 1j * rng.normal(size=(D, D))
    Om = (Om + Om.conj().T) / 2
    oper = DenseOperator(torch.tensor(Om), gpu=False)
    obs = [pb.StateResult(evaluation_times=evals[0]), pb.Occupation(evaluation_times=evals[0]),
           pb.CorrelationMatrix(evaluation_times=evals[1]), pb.Energy(evaluation_times=evals[1]),
           pb.EnergySecondMoment(evaluation_times=evals[2]), pb.EnergyVariance(evaluation_times=evals[2]),
           pb.Fidelity(fid_state, evaluation_times=evals[2]), pb.Expectation(oper, evaluation_times=evals[0])]
    kw = dict(dt=case["dt"], observables=obs, krylov_tolerance=case["ktol"], with_modulation=mod,
              interaction_cutoff=case["cutoff"])
    psi0 = None
    if case["init"] is not None:
        amps = {s: complex(*a) for s, a in case["init"].items()}
        st0 = cut(StateVector.from_state_amplitudes, eigenstates=("r", "g"), amplitudes=amps)
        kw["initial_state"] = st0
        psi0 = np.zeros(D, dtype=complex)
        for s, a in amps.items():
            psi0[int(s.replace("r", "1").replace("g", "0"), 2)] = a
        psi0 /= np.linalg.norm(psi0)
        r.label("initial_state")
    if case["custom"] is not None:
        M = np.zeros((n, n))
        k = 0
        for i in range(n):
            for j in range(i + 1, n):
                M[i, j] = M[j, i] = case["custom"]["vals"][k]
                k += 1
        M[np.arange(n), np.arange(n)] = case["custom"]["diag"]
        kw["interaction_matrix"] = M
        r.label("custom_matrix", "custom_diag" if case["custom"]["diag"] else "custom_zero_diag")
    import warnings

    with warnings.catch_warnings():
        warnings.simplefilter("ignore")
        cfg = cut(e2e.sv_config, **kw)
    refs, info = reference(case, seq, psi0=psi0)
    init_before = cfg.initial_state.data.clone() if psi0 is not None else None
    backend = SVBackend(seq, config=cfg)
    try:
        res = cut(backend.run)
    except Exception as e:  # noqa: BLE001
        inner = getattr(e, "exc", None)
        if isinstance(inner, RecursionError) and "did not converge" in str(inner):
            # the documented, honest refusal of C07 (dt*|generator| too large for the allowed Krylov dimension, e.g. the
            # detuning of an SLM mask with a long step): no result is returned, so nothing can be wrong; counted
            r.discard = "krylov_exp refused: did not converge within the allowed dimension"
            return r
        raise
    if case["seed"] % 3 == 0:  # history: the second run of the same backend object is the one judged
        first, first_occ = res, [e2e.to_np(x).copy() for x in res.occupation]
        res = cut(backend.run)
        r.label("second_run_of_the_same_backend")
        if any(np.abs(e2e.to_np(a) - b).max() > 0 for a, b in zip(first.occupation, first_occ)):
            r.fail("second_run_changed_the_first_results", "occupations of the Results returned by the first run changed during the second run")
    if init_before is not None and float((cfg.initial_state.data - init_before).abs().max()) > 1e-14:
        r.fail("run_modified_the_configured_initial_state", f"max change {float((cfg.initial_state.data - init_before).abs().max()):.3e}")

    grid = info["grid"]
    nsteps = len(grid) - 1
    tol = TOL["factor_on_krylov_tol_per_step"] * case["ktol"] * nsteps + TOL["floor"]
    ref0 = refs[0]
    final_overlap = abs(np.vdot(ref0.states[0], ref0.states[nsteps]))
    drive = float(np.abs(ref0.amp).max())
    r.nontrivial = n >= 2 and np.abs(info["U"]).max() > 0 and drive > 0 and nsteps >= 3 and final_overlap < 0.999
    r.label(f"n{n}", "mod" if mod else "nomod", "local" if seqc["local"] else "nolocal", "dmm" if seqc["dmm"] else "nodmm",
            "slm" if seqc["slm"] else "noslm", "dt<1" if float(case["dt"]) < 1 else "dt>=1",
            "phase" if np.abs(ref0.ph).max() > 0 else "nophase",
            "dt_divides" if abs(T / float(case["dt"]) - round(T / float(case["dt"]))) < 1e-9 else "dt_not_dividing")
    if info["straddle"]:
        r.label("slm_straddle")
    if case["cutoff"] > 0:
        r.label("cutoff")

    model_refs = {}

    def models(faithful_expm):
        """references evolved with a harness model of the implementation's Krylov exponentiation; built only when a
        deviation is seen.  faithful_expm=False: the implementation's stopping rule (known finding C07: the estimate uses
        the norm of A applied to the previous vector) with an accurate exponential of the projected matrix;
        faithful_expm=True: additionally torch.linalg.matrix_exp for that exponential, as the implementation does (known
        finding C07: accurate to ~1.5e-10 only in a band of norms)"""
        if faithful_expm not in model_refs:
            from pbt.oracles import krylov_model

            def step(A, v):
                out, conv, _ = krylov_model.krylov_exp_prev_norm(A, v, case["ktol"], hermitian=True,
                                                                 expm=krylov_model.torch_expm if faithful_expm else None)
                return out
            model_refs[faithful_expm] = reference(case, seq, psi0=psi0, step=step)[0]
        return model_refs[faithful_expm]

    def best_err(rs, t_rel, v, ref_value, scale_of):
        best = None
        for ref in rs:
            k = ref.index_of(float(t_rel) * info["T"], tol=1e-6 * max(1.0, info["T"]))
            want = ref_value(ref, k)
            sc = scale_of(ref, k) if scale_of else 1.0
            err = float(np.max(np.abs(e2e.to_np(v) - want))) / max(sc, 1e-300)
            best = err if best is None else min(best, err)
        return best

    def agree(tag, times_rel, getter, ref_value, scale_of=None, abs_floor=0.0):
        """compare a result tag at each requested time with any of the admissible references"""
        got_times = res.get_result_times(tag)
        vals = getter()
        if len(vals) != len(got_times):
            r.fail("result_shape:" + tag, f"{len(vals)} values for {len(got_times)} times")
            return
        for t_rel, v in zip(got_times, vals):
            try:
                best = best_err(refs, t_rel, v, ref_value, scale_of)
            except KeyError:
                r.fail("result_at_unrequested_time:" + tag, f"t={t_rel!r}")
                return
            if not best <= tol + abs_floor:
                # attribution: does a faithful model of the implementation's exponentiation reproduce the emulator?  If so,
                # which of the two known root causes carries the deviation?
                m_faith = best_err(models(True), t_rel, v, ref_value, scale_of)
                m_rule = best_err(models(False), t_rel, v, ref_value, scale_of)
                detail = (f"{tag} t={float(t_rel):.6g} (abs {float(t_rel) * info['T']:.6g} ns): error {best:.3e} > tol {tol:.3e} "
                          f"(ktol={case['ktol']:g}, steps={nsteps}, n={n}, dt={case['dt']}); distance to the faithful model "
                          f"(stopping rule + torch matrix_exp) {m_faith:.3e}, to the stopping-rule model with an accurate exponential {m_rule:.3e}")
                if m_faith <= 0.02 * best + 1e-13 * nsteps:
                    if m_rule <= 0.1 * best:
                        r.fail("krylov_tolerance_not_met:explained_by_stopping_rule", detail)
                    else:
                        r.fail("krylov_tolerance_not_met:explained_by_torch_matrix_exp_accuracy", detail)
                else:
                    r.fail("differs_from_reference:" + tag, detail)
                return

    def H_for(ref, k):
        return ref.H[k - 1] if k > 0 else ref.h_step(0, U=ref.U_of_t(ref.grid[0]))

    def normH(ref, k):
        return max(1.0, float(np.linalg.norm(H_for(ref, k), 2)))

    agree("state", evals[0], lambda: [s.data.numpy() for s in res.state], lambda ref, k: ref.states[k])
    agree("occupation", evals[0], lambda: res.occupation, lambda ref, k: ref.occupation(k))
    agree("correlation_matrix", evals[1], lambda: res.correlation_matrix, lambda ref, k: ref.correlation(k))
    agree("energy", evals[1], lambda: res.energy, lambda ref, k: np.real(ref.expect(k, H_for(ref, k))), scale_of=normH)
    agree("energy_second_moment", evals[2], lambda: res.energy_second_moment,
          lambda ref, k: np.real(ref.expect(k, H_for(ref, k) @ H_for(ref, k))), scale_of=lambda ref, k: normH(ref, k) ** 2)
    agree("energy_variance", evals[2], lambda: res.energy_variance,
          lambda ref, k: np.real(ref.expect(k, H_for(ref, k) @ H_for(ref, k))) - np.real(ref.expect(k, H_for(ref, k))) ** 2,
          scale_of=lambda ref, k: normH(ref, k) ** 2)
    agree("fidelity", evals[2], lambda: res.fidelity, lambda ref, k: abs(np.vdot(fv, ref.states[k])) ** 2)
    agree("expectation", evals[0], lambda: res.expectation, lambda ref, k: ref.expect(k, Om),
          scale_of=lambda ref, k: max(1.0, float(np.linalg.norm(Om, 2))))
    return r
