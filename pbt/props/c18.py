"""C18: quantum-jump stepping completes every time step once, in order, applies jumps at a threshold crossing inside
the current step, records observables once per due time, and terminates -- however the squared norm evolves."""
from __future__ import annotations

import math

from hypothesis import strategies as st

from pbt import build, e2e
from pbt.common import Result, HarnessError

ID = "C18"
LEVEL = "exploration"
TOL = {"root_tolerance_ns": 1.0}
RULE = ("histories of a real NoisyMPSBackendImpl (2 atoms, dephasing noise so that jump weights are positive for every "
        "state) whose evolution is replaced by a harness model: after evolving to time t the squared norm is a "
        "generated function of t since the last jump -- family 'hazard': exp(-integral of generated piecewise-constant "
        "rates) (continuous, monotone; the crossing time is known in closed form); family 'adversarial': each value is a "
        "generated point inside the physical envelope [exp(-rate_max*(t-t_jump)), 1] (non-monotone, discontinuous, "
        "several crossings), including values equal to the current jump threshold up to one ulp and exactly 1; 2-12 time "
        "steps of 1-60 ns (dt dividing or not), evaluation times on and off the grid; random.uniform / random.choices "
        "seeded by the case.  Plus 'physics': unmodified noisy runs with large rates.  Events are observed through "
        "run-time wrappers (progress, timestep_complete, fill_results, do_random_quantum_jump, root-finder state).  "
        "Invariants: timestep_complete carries step indices 0..n-1 exactly once, in order, at target_times[i+1]; "
        "observables recorded once per requested time; every jump time lies inside the step in progress; at a jump the "
        "root finder's bracket is narrower than 1 ns and its end ordinates have opposite signs (hazard family: the jump "
        "is within 1 ns of the exact crossing); the solver time never leaves the step in progress; the run ends within "
        "n_steps + jumps*(10+4*ceil(log2(step))^2) + 10 progress calls.  non-trivial = history with >=1 jump; "
        "distinct = case hash")
ASSUMPTIONS = ["termination is checked as a bounded-step safety property (budget far above Brent's worst case)",
               "the adversarial family stays inside the envelope a physical non-unitary evolution with bounded rates can produce: "
               "an evolution of zero duration cannot lower the norm, otherwise no implementation could terminate"]


def budget(tier):
    return {"cases": 480 if tier == "quick" else 8000, "shards": 16, "wall": 900 if tier == "quick" else 3300}


@st.composite
def _cases(draw):
    family = draw(st.sampled_from(["hazard", "hazard", "adversarial", "adversarial", "physics"]))
    steps = draw(st.integers(2, 12))
    dt = draw(st.sampled_from([1, 2, 5, 10, 10, 20, 60, 7, 2.5]))
    T = int(max(4, math.ceil(steps * dt) + draw(st.sampled_from([0, 0, 3, 1]))))
    if family == "physics":
        T = min(T, 120)
    spec = st.one_of(st.floats(0.0, 1.0).map(lambda v: round(v, 6)), st.sampled_from([0.0, 1.0, "thr", "thr+", "thr-", 0.5]))
    return {"family": family, "T": T, "dt": dt, "evals": draw(st.lists(st.sampled_from([0.0, 0.25, 0.5, 1 / 3, 0.7, 0.9, 1.0, 0.123]), min_size=1, max_size=3, unique=True).map(sorted)),
            "rates": draw(st.lists(st.sampled_from([0.0, 5.0, 30.0, 100.0, 300.0, 1000.0]), min_size=1, max_size=6)),
            "rate_max": draw(st.sampled_from([30.0, 100.0, 400.0])),
            "values": draw(st.lists(spec, min_size=0, max_size=30)),
            "phys_rate": draw(st.sampled_from([20.0, 80.0, 250.0])),
            "seed": draw(st.integers(0, 2**20))}


def strategy(tier):
    return _cases()


def check_case(case) -> Result:
    import contextlib
    import io
    import random
    import warnings

    import numpy as np
    import pulser.backend as pb
    from emu_base import PulserData
    from emu_mps.mps_backend_impl import NoisyMPSBackendImpl, create_impl
    from pulser import NoiseModel

    r = Result()
    fam = case["family"]
    T = case["T"]
    seqc = {"reg": {"ids": ["a", "b"], "coords": [[0.0, 0.0], [8.0, 0.0]]}, "basis": "rydberg", "device": "mock", "local": None, "dmm": None,
            "slm": None, "ops": [{"t": "pulse", "ch": "g", "amp": {"k": "const", "d": T, "v": 4.0}, "det": {"k": "const", "d": T, "v": 1.0}, "phase": 0.0}]}
    seq = build.sequence(seqc)
    rate_noise = case["phys_rate"] if fam == "physics" else 1.0
    with warnings.catch_warnings():
        warnings.simplefilter("ignore")
        cfg = e2e.mps_config(dt=case["dt"], observables=[pb.Occupation(evaluation_times=case["evals"])], noise_model=NoiseModel(dephasing_rate=rate_noise),
                             precision=1e-6)
    e2e.seed_all(case["seed"])
    sd = next(iter(PulserData(sequence=seq, config=cfg, dt=cfg.dt).get_sequences()))
    impl = create_impl(sd, cfg)
    if not isinstance(impl, NoisyMPSBackendImpl):
        raise HarnessError("expected the noisy implementation")
    with contextlib.redirect_stdout(io.StringIO()):
        impl.init()
    tt = [float(t) for t in impl.target_times]
    nsteps = len(tt) - 1
    events = []
    st_ = {"t_reset": 0.0, "calls": 0, "vi": 0}
    aux = random.Random(case["seed"] ^ 0x5EED)

    # ---------------- evolution model
    seg = float(T) / len(case["rates"])

    def Lam(t):
        """cumulative hazard (rates in 1/us, time in ns)"""
        tot, k = 0.0, 0
        while k < len(case["rates"]) and t > (k + 1) * seg:
            tot += case["rates"][k] * seg * 1e-3
            k += 1
        if k < len(case["rates"]):
            tot += case["rates"][k] * max(0.0, t - k * seg) * 1e-3
        return tot

    def model_norm2(t):
        if fam == "hazard":
            return math.exp(-(Lam(t) - Lam(st_["t_reset"])))
        lo = math.exp(-case["rate_max"] * max(0.0, t - st_["t_reset"]) * 1e-3)
        i = st_["vi"]
        st_["vi"] += 1
        u = case["values"][i] if i < len(case["values"]) else round(aux.random(), 6)
        thr = impl.jump_threshold
        if isinstance(u, str):
            v = {"thr": thr, "thr+": math.nextafter(thr, 2.0), "thr-": math.nextafter(thr, -1.0)}[u]
            return min(1.0, max(v, lo, 1e-300))
        return lo ** u  # u=0 -> 1 (no decay), u=1 -> the envelope

    if fam != "physics":
        def stub(*indices, dt, orth_center_right=None):
            t_target = impl.current_time + dt
            v = model_norm2(t_target)
            c = impl.state.orthogonality_center
            cur = float(impl.state.norm()) ** 2
            c = impl.state.orthogonality_center
            impl.state.factors[c] = impl.state.factors[c] * math.sqrt(v / cur)
            events.append(("evolve", impl.current_time, t_target, v))
        impl._evolve = stub

    # ---------------- observers
    orig_tc, orig_fill, orig_jump = impl.timestep_complete, impl.fill_results, impl.do_random_quantum_jump

    def tc():
        events.append(("step_complete", impl.current_time, impl._timestep_index))
        orig_tc()

    def fill():
        events.append(("fill", impl.current_time, impl._timestep_index))
        orig_fill()

    def jump():
        rf = impl.root_finder
        events.append(("jump", impl.current_time, impl._timestep_index, (rf.a, rf.b, rf.fa, rf.fb) if rf is not None else None, impl.jump_threshold,
                       st_["t_reset"]))
        orig_jump()
        st_["t_reset"] = impl.current_time

    impl.timestep_complete, impl.fill_results, impl.do_random_quantum_jump = tc, fill, jump
    budget_calls = nsteps + 10
    max_step = max(b - a for a, b in zip(tt[:-1], tt[1:]))
    per_jump = 10 + 4 * math.ceil(math.log2(max(2.0, max_step))) ** 2
    njumps = 0
    stepi = 0
    with contextlib.redirect_stdout(io.StringIO()):
        while not impl.is_finished():
            st_["calls"] += 1
            try:
                impl.progress()
            except Exception as e:  # noqa: BLE001
                import traceback

                from pbt import common

                what, text = common.classify_exception(e)
                r.fail("stepping_raised:" + type(e).__name__, f"after {st_['calls']} progress calls, events tail {events[-4:]}: " + text[-700:])
                break
            njumps = sum(1 for ev in events if ev[0] == "jump")
            if st_["calls"] > budget_calls + njumps * per_jump + 2000:
                r.fail("does_not_terminate", f"{st_['calls']} progress calls for {nsteps} steps and {njumps} jumps; events tail {events[-6:]}")
                break
            # solver time stays inside the step in progress
            k = impl._timestep_index
            if k < nsteps and not (tt[k] - 1e-9 <= impl.current_time <= tt[k + 1] + 1e-9) and not r.violations:
                r.fail("time_left_the_step_in_progress", f"current_time {impl.current_time} outside [{tt[k]}, {tt[k + 1]}] (step {k})")
                break
    r.label(fam, "jumps0" if njumps == 0 else ("jumps1-2" if njumps <= 2 else "jumps3+"), f"steps{min(nsteps, 12)}")
    r.nontrivial = njumps >= 1
    r.info = {"progress_calls": st_["calls"], "jumps": njumps, "steps": nsteps}
    if r.violations:
        return r
    if st_["calls"] > budget_calls + njumps * per_jump:
        r.fail("too_many_progress_calls", f"{st_['calls']} > {budget_calls} + {njumps}*{per_jump}")
    # ---- steps complete exactly once, in order, at the right times
    sc = [(ev[2], ev[1]) for ev in events if ev[0] == "step_complete"]
    if [i for i, _ in sc] != list(range(nsteps)):
        r.fail("steps_not_completed_once_in_order", f"indices {[i for i, _ in sc]} for {nsteps} steps")
    else:
        for i, t in sc:
            if abs(t - tt[i + 1]) > 1e-9:
                r.fail("step_completed_at_wrong_time", f"step {i} completed at {t}, target {tt[i + 1]}")
                break
    # ---- observables once per due time
    got = [float(t) for t in impl.results.get_result_times("occupation")] if "occupation" in impl.results.get_result_tags() else []
    want = sorted(case["evals"])
    if len(got) != len(want) or any(abs(a - b) > 1e-9 for a, b in zip(got, want)):
        r.fail("observable_times", f"recorded {got}, requested {want}")
    # ---- jumps
    two_in_step = False
    seen_steps = []
    for ev in events:
        if ev[0] != "jump":
            continue
        _, t, k, rf, thr, t_reset = ev
        if k in seen_steps:
            two_in_step = True
        seen_steps.append(k)
        if not (tt[k] - 1e-9 <= t <= tt[k + 1] + 1e-9):
            r.fail("jump_outside_current_step", f"jump at {t} during step {k} = [{tt[k]}, {tt[k + 1]}]")
            break
        if rf is None:
            r.fail("jump_without_root_search", f"jump at {t}")
            break
        a, b, fa, fb = rf
        if not abs(b - a) < TOL["root_tolerance_ns"]:
            r.fail("jump_before_root_converged", f"bracket [{a}, {b}] wider than 1 ns at the jump (t={t})")
            break
        if fa * fb > 0:
            r.fail("jump_without_sign_change", f"bracket ordinates {fa}, {fb} at t={t}")
            break
        if not (min(a, b) - 1e-9 <= t <= max(a, b) + 1e-9):
            r.fail("jump_time_outside_bracket", f"t={t}, bracket [{a}, {b}]")
            break
        if fam == "hazard":
            # exact crossing: Lam(t*) = Lam(t_reset) - log(thr)
            target = Lam(t_reset) - math.log(thr)
            lo, hi = t_reset, float(T)
            if Lam(hi) >= target:
                for _ in range(200):
                    mid = 0.5 * (lo + hi)
                    if Lam(mid) < target:
                        lo = mid
                    else:
                        hi = mid
                if abs(t - hi) > TOL["root_tolerance_ns"] + 1e-6:
                    r.fail("jump_far_from_crossing", f"jump at {t}, exact crossing {hi:.6f} (threshold {thr}, since {t_reset})")
                    break
    if two_in_step:
        r.label("several_jumps_in_a_step")
    return r
