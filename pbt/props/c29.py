"""C29: physically equivalent inputs give equivalent results (register isometries, global phase offset, phase
negation where it is a symmetry, serialisation round trip)."""
from __future__ import annotations

import math

from hypothesis import strategies as st

from pbt import build, e2e, gen
from pbt.common import Result, cut

ID = "C29"
LEVEL = "exploration"
TOL = {"isometry": 1e-4, "other_sv": 1e-7, "other_mps": "2*(20*(2(N-1)p+3Np*extra)*steps+2e-7)", "bitstring_alpha_per_run": 1e-9}
RULE = ("pairs (original, transformed) of the same generated ground-rydberg sequence (2-8 atoms, global + retargeted local "
        "channel, DMM, SLM, phases, all waveform kinds) on emu-sv and emu-mps (reordering off; internal reordering is "
        "C03's business): translation, in-plane rotation by a generated angle, reflection of the register; a constant "
        "offset added to the phase of every pulse (on sequences whose sampled phase is one constant, see ASSUMPTIONS); serialisation round trip Sequence.from_abstract_repr(to_abstract_repr);"
        " phase negation only on the sub-domain where it is a symmetry (all detunings zero and a zero user interaction "
        "matrix: phi -> -phi maps H to its complex conjugate, which in general equals flipping the sign of detunings "
        "and interactions).  Relation: occupations, correlation matrices and energies equal (1e-4 for isometries because "
        "pulser rounds coordinates, precision-level otherwise); per-position bitstring frequencies of the transformed run "
        "consistent with the original occupations (exact binomial test).  non-trivial = >=2 atoms, non-zero drive and "
        "interaction (except the negation sub-domain), transformation not the identity; distinct = case hash")
ASSUMPTIONS = ["phase relations are asserted where the *discretised* model is covariant: the emulators interpolate sampled phases, and "
               "Pulser stores phase 0 where the amplitude is 0 and wraps to [0,2pi), so gaps, mask ends and phase jumps break "
               "covariance of the piecewise-constant Hamiltonian (not of the physics); generated: back-to-back global pulses "
               "sharing one phase, offset without wrap-around",
               "phase negation is NOT a symmetry of a general sequence; the statement's wording is applied only where it is true",
               "emu-mps runs use optimize_qubit_ordering=False so that both runs make the same algorithmic choices"]


def budget(tier):
    return {"cases": 224 if tier == "quick" else 2400, "shards": 16, "wall": 900 if tier == "quick" else 3300}


@st.composite
def _cases(draw):
    kind = draw(st.sampled_from(["translate", "rotate", "reflect", "phase_offset", "phase_offset", "phase_offset", "serialize", "phase_negate"]))
    backend = draw(st.sampled_from(["sv", "mps"]))
    if kind in ("phase_negate", "phase_offset"):
        # The emulators interpolate the sampled phase between pulses and Pulser stores 0 where the amplitude is 0 and
        # wraps phases to [0, 2pi): across a gap, a mask end or a phase jump the *discretised* Hamiltonian is not
        # covariant under a phase shift.  The relation is therefore asserted on sequences whose sampled phase is one
        # constant: back-to-back pulses on the global channel sharing one phase, no SLM mask, no local channel.
        seq = draw(gen.seq_cases(n_min=1 if backend == "sv" else 2, n_max=6, basis="rydberg", allow_mod=False, allow_local=False,
                                 allow_dmm=False, allow_slm=False, max_ops=4, dur_hi=60))
        seq["ops"] = [o for o in seq["ops"] if o["t"] == "pulse"]  # no gaps, no parallel channel outlasting the pulses
        phi = draw(st.sampled_from([0.0, 0.4, 1.3, 2.0, 3.0] if kind == "phase_offset" else [0.4, 1.3, 2.0, 3.0]))
        for o in seq["ops"]:
            if o["t"] == "pulse":
                o["phase"] = phi
                if kind == "phase_negate":
                    o["det"] = {"k": "const", "d": build.wf_duration(o["amp"]), "v": 0.0}
        if kind == "phase_offset" and len(seq["reg"]["ids"]) >= 2 and draw(st.integers(0, 2)) > 0:
            # a local channel driven during the whole sequence with its own constant phase, and back-to-back global
            # pulses each with its own phase: atoms carry different, time-dependent phases (some exactly 0), still
            # without gaps.  Pulser adds the phases of simultaneous pulses on an atom, so everything is kept small
            # enough that phase + offset never wraps around 2 pi.
            if len(seq["ops"]) == 1:
                o0 = seq["ops"][0]
                d0 = build.wf_duration(o0["amp"])
                seq["ops"].append({"t": "pulse", "ch": "g", "amp": {"k": "const", "d": d0, "v": 6.0}, "det": {"k": "const", "d": d0, "v": -1.0}, "phase": 0.0})
            T_all = sum(build.wf_duration(o["amp"]) for o in seq["ops"])
            seq["local"] = draw(st.sampled_from(seq["reg"]["ids"]))
            phs = list(draw(st.permutations([0.0, 0.4, 1.3, 0.9])))
            if draw(st.booleans()):
                phs[0] = 0.0  # atoms at phase exactly 0 next to an atom with a non-zero phase from the very first step
            seq["ops"] = [dict(o, protocol="no-delay", phase=phs[i % 4]) for i, o in enumerate(seq["ops"])]
            seq["ops"].insert(0, {"t": "pulse", "ch": "l", "amp": {"k": "const", "d": T_all, "v": draw(st.sampled_from([2.0, 5.0]))},
                                  "det": {"k": "const", "d": T_all, "v": 0.0}, "phase": draw(st.sampled_from([0.0, 0.7, 1.3])), "protocol": "no-delay"})
            seq["small_offset"] = True
    else:
        seq = draw(gen.seq_cases(n_min=2, n_max=7, basis="rydberg", allow_mod=False, max_ops=3, dur_hi=60, dmin=5.5, dmax=10.0))
    return {"kind": kind, "backend": backend, "seq": seq, "dt": draw(st.sampled_from([5, 10, 7, 2.5])),
            "angle": draw(st.floats(0.1, 6.2).map(lambda v: round(v, 4))), "shift": [draw(gen.half(-20, 20)), draw(gen.half(-20, 20))],
            # phase + offset stays below 2pi: no wrap-around
            "offset": draw(st.floats(0.1, 1.0 if seq.pop("small_offset", False) else 3.0).map(lambda v: round(v, 4))), "precision": 1e-7, "seed": draw(st.integers(0, 2**20))}


def strategy(tier):
    return _cases()


def _transform(case):
    seqc = case["seq"]
    kind = case["kind"]
    new = dict(seqc)
    if kind in ("translate", "rotate", "reflect"):
        reg = dict(seqc["reg"])
        cs = []
        a = case["angle"]
        for x, y in seqc["reg"]["coords"]:
            if kind == "translate":
                cs.append([x + case["shift"][0], y + case["shift"][1]])
            elif kind == "rotate":
                cs.append([x * math.cos(a) - y * math.sin(a), x * math.sin(a) + y * math.cos(a)])
            else:
                cs.append([-x, y])
        reg["coords"] = cs
        new["reg"] = reg
    elif kind in ("phase_offset", "phase_negate"):
        ops = []
        for o in seqc["ops"]:
            o = dict(o)
            if o["t"] == "pulse":
                o["phase"] = (o["phase"] + case["offset"]) if kind == "phase_offset" else -o["phase"]
            ops.append(o)
        new["ops"] = ops
    return new


def _run(case, seqc, roundtrip=False):
    import contextlib
    import io
    import warnings

    import numpy as np
    import pulser.backend as pb

    seq = build.sequence(seqc)
    if roundtrip:
        from pulser import Sequence

        seq = cut(Sequence.from_abstract_repr, seq.to_abstract_repr())
    n = len(seqc["reg"]["ids"])
    ev = [0.5, 1.0]
    obs = [pb.Occupation(evaluation_times=ev), pb.CorrelationMatrix(evaluation_times=ev), pb.Energy(evaluation_times=ev),
           pb.BitStrings(evaluation_times=[1.0], num_shots=1000)]
    kw = dict(dt=case["dt"], observables=obs)
    if case["kind"] == "phase_negate":
        kw["interaction_matrix"] = np.zeros((n, n))
    with warnings.catch_warnings():
        warnings.simplefilter("ignore")
        if case["backend"] == "sv":
            from emu_sv import SVBackend as B

            cfg = e2e.sv_config(krylov_tolerance=1e-10, **kw)
        else:
            from emu_mps import MPSBackend as B

            cfg = e2e.mps_config(precision=case["precision"], optimize_qubit_ordering=False, **kw)
    e2e.seed_all(case["seed"])
    with contextlib.redirect_stdout(io.StringIO()):
        res = cut(B(seq, config=cfg).run)
    return res, cfg


def check_case(case) -> Result:
    import numpy as np
    from scipy.stats import binom

    r = Result()
    seqc = case["seq"]
    kind, backend = case["kind"], case["backend"]
    n = len(seqc["reg"]["ids"])
    if backend == "mps" and n < 2:
        r.discard = "emu-mps needs two atoms"
        return r
    a, cfg = _run(case, seqc)
    b, _ = _run(case, _transform(case), roundtrip=(kind == "serialize"))
    nsteps = len(a.get_result_times("statistics"))
    if kind in ("translate", "rotate", "reflect"):
        tol = TOL["isometry"]
    elif backend == "sv":
        tol = TOL["other_sv"]
    else:
        tol = 2 * (20.0 * (2 * (n - 1) * case["precision"] + 3 * n * case["precision"] * cfg.extra_krylov_tolerance) * nsteps + 2e-7)
    occ0 = e2e.to_np(a.occupation[-1])
    has_phase = any(o["t"] == "pulse" and o["phase"] != 0 for o in seqc["ops"])
    r.label(kind, backend, f"n{n}", "has_phase" if has_phase else "zero_phase", "slm" if seqc["slm"] else "noslm",
            "local" if seqc["local"] else "nolocal", "dmm" if seqc["dmm"] else "nodmm")
    r.nontrivial = bool(n >= 2 and occ0.max() > 1e-3 and (kind != "phase_negate" or has_phase))
    if tuple(a.atom_order) != tuple(b.atom_order):
        r.fail("atom_order_differs:" + kind, f"{b.atom_order} vs {a.atom_order}")
    for tag in ("occupation", "correlation_matrix", "energy"):
        ta, tb = a.get_result_times(tag), b.get_result_times(tag)
        if list(ta) != list(tb):
            r.fail(f"times_differ:{kind}:{tag}", f"{tb} vs {ta}")
            continue
        for t, x, y in zip(ta, getattr(a, tag), getattr(b, tag)):
            x, y = e2e.to_np(x), e2e.to_np(y)
            sc = 1.0 if tag != "energy" else max(1.0 + 30.0 * n, float(np.max(np.abs(x))))  # an SLM mask adds |H| ~ 1e4
            err = float(np.max(np.abs(x - y))) / sc
            if not err <= tol:
                r.fail(f"equivalent_input_changes:{tag}:{kind}:{backend}", f"t={t}: |delta|={err:.3e} > {tol:.2e}; original {np.round(x, 6).tolist() if x.size < 10 else '...'} "
                                                                           f"transformed {np.round(y, 6).tolist() if y.size < 10 else '...'} (n={n})")
                break
    bs = b.bitstrings[-1]
    tot = sum(bs.values())
    if tot != 1000:
        r.fail("bitstring_total:" + kind, str(tot))
    alpha = TOL["bitstring_alpha_per_run"] / (2 * n)
    for i in range(n):
        k1 = sum(c for s, c in bs.items() if s[i] == "1")
        p = min(max(float(occ0[i]), 0.0), 1.0)
        lo = binom.cdf(k1, tot, max(0.0, p - tol))  # "too few ones" judged against the smallest admissible p
        hi = binom.sf(k1 - 1, tot, min(1.0, p + tol))  # "too many ones" against the largest admissible p
        if min(lo, hi) < alpha:
            r.fail(f"bitstring_distribution_changes:{kind}:{backend}", f"position {i}: {k1}/{tot} ones vs original occupation {p:.4f} (tail {min(lo, hi):.1e})")
            break
    return r
