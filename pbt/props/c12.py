"""C12: emu-sv state-vector / density-matrix / operator objects are faithful to their dense definitions."""
from __future__ import annotations

from hypothesis import strategies as st

from pbt.common import Result, cut, CutRaised

ID = "C12"
LEVEL = "exploration"
TOL = {"abs_rel_scale": 1e-10}
RULE = ("1-8 qubits; amplitude dictionaries over {r,g} strings with complex amplitudes (unnormalised); operator "
        "representations = weighted sums of tensor products of QuditOps (dicts over gg/gr/rg/rr with complex weights) "
        "on disjoint target sets, a QuditOp may target several qudits; random complex vectors/matrices; operations: "
        "from_state_amplitudes (StateVector, DensityMatrix), Dense/SparseOperator.from_operator_repr (agree with each "
        "other and with the harness' kron), inner, norm, overlap, +, scalar*, apply_to, expect, @, "
        "DensityMatrix.from_state_vector/overlap; ('0','1') must be rejected; non-trivial = >=2 qubits and an operator "
        "with >=1 non-diagonal QuditOp; distinct = case hash")
ASSUMPTIONS = ["pulser validates that target sets are disjoint and that QuditOp keys are two eigenstate letters, so "
               "nested symbolic operators / repeated targets are not constructible through the public API",
               "atom 0 is the most significant tensor factor; index 0 = g, 1 = r"]


def budget(tier):
    return {"cases": 1500 if tier == "quick" else 30000, "shards": 16, "wall": 600 if tier == "quick" else 3000}


def _c():
    return st.tuples(st.floats(-2, 2), st.floats(-2, 2)).map(lambda t: [round(t[0], 6), round(t[1], 6)])


@st.composite
def _cases(draw):
    n = draw(st.integers(1, 8))
    nstr = draw(st.integers(1, min(6, 2**n)))
    strs = draw(st.lists(st.lists(st.sampled_from("rg"), min_size=n, max_size=n).map("".join), min_size=nstr, max_size=nstr, unique=True))
    amps = [draw(_c()) for _ in strs]
    if all(a == [0.0, 0.0] for a in amps):
        amps[0] = [1.0, 0.0]
    nterms = draw(st.integers(1, 4))
    ops = []
    for _ in range(nterms):
        perm = draw(st.permutations(list(range(n))))
        k = draw(st.integers(0, min(n, 3)))
        tens, pos = [], 0
        for _ in range(k):
            if pos >= n:
                break
            size = draw(st.integers(1, min(2, n - pos)))
            targets = sorted(perm[pos:pos + size])
            pos += size
            keys = draw(st.lists(st.sampled_from(["gg", "gr", "rg", "rr"]), min_size=1, max_size=4, unique=True))
            tens.append([{kk: draw(_c()) for kk in keys}, targets])
        ops.append([draw(_c()), tens])
    return {"n": n, "strs": strs, "amps": amps, "ops": ops, "seed": draw(st.integers(0, 2**31 - 1)),
            "scalar": draw(_c())}


def strategy(tier):
    return _cases()


def check_case(case) -> Result:
    import numpy as np
    import torch
    from emu_sv import DenseOperator, DensityMatrix, SparseOperator, StateVector, inner

    r = Result()
    n = case["n"]
    D = 2**n
    rng = np.random.default_rng(case["seed"])
    eig = ("r", "g")
    tol = TOL["abs_rel_scale"]

    def close(a, b, what, scale=None):
        a = np.asarray(a)
        b = np.asarray(b)
        s = max(1.0, float(np.abs(b).max()) if b.size else 1.0) if scale is None else scale
        if a.shape != b.shape or not np.all(np.abs(a - b) <= tol * s):
            r.fail(what, f"max diff {np.abs(a - b).max() if a.shape == b.shape else 'shape ' + str(a.shape) + str(b.shape)}")

    # ---- states
    amp = {s: complex(*a) for s, a in zip(case["strs"], case["amps"])}
    ref = np.zeros(D, dtype=complex)
    e = {"g": np.array([1, 0], dtype=complex), "r": np.array([0, 1], dtype=complex)}
    for s, a in amp.items():
        v = np.array([1.0 + 0j])
        for ch in s:
            v = np.kron(v, e[ch])
        ref += a * v
    nr = np.linalg.norm(ref)
    if nr < 1e-6:
        r.discard = "zero state"
        return r
    ref = ref / nr
    sv = cut(StateVector.from_state_amplitudes, eigenstates=eig, amplitudes=amp)
    close(sv.data.numpy(), ref, "statevector_from_amplitudes")
    dm = cut(DensityMatrix.from_state_amplitudes, eigenstates=eig, amplitudes=amp)
    close(dm.data.numpy(), np.outer(ref, ref.conj()), "densitymatrix_from_amplitudes")
    for cls in (StateVector, DensityMatrix):
        try:
            cls.from_state_amplitudes(eigenstates=("0", "1"), amplitudes={"0" * n: 1.0})
            r.fail("accepts_01_basis:" + cls.__name__, "('0','1') basis accepted although documented as not implemented")
        except (NotImplementedError, ValueError):
            pass

    # ---- operators
    base = {"gg": np.array([[1, 0], [0, 0]], dtype=complex), "gr": np.array([[0, 1], [0, 0]], dtype=complex),
            "rg": np.array([[0, 0], [1, 0]], dtype=complex), "rr": np.array([[0, 0], [0, 1]], dtype=complex)}
    refO = np.zeros((D, D), dtype=complex)
    operations = []
    nondiag = False
    for coeff, tens in case["ops"]:
        gates = [np.eye(2, dtype=complex) for _ in range(n)]
        tl = []
        for qd, targets in tens:
            m = sum(complex(*w) * base[k] for k, w in qd.items())
            nondiag |= any(k in ("gr", "rg") for k in qd)
            for t in targets:
                gates[t] = m
            tl.append(({k: complex(*w) for k, w in qd.items()}, set(targets)))
        full = np.array([[1.0 + 0j]])
        for g in gates:
            full = np.kron(full, g)
        refO += complex(*coeff) * full
        operations.append((complex(*coeff), tl))
    r.nontrivial = n >= 2 and nondiag
    r.label(f"n{n}", "nondiag" if nondiag else "diag", "multi_target" if any(len(t) > 1 for _, tens in case["ops"] for _, t in tens) else "single_target")
    dop = cut(DenseOperator.from_operator_repr, eigenstates=eig, n_qudits=n, operations=operations)
    sop = cut(SparseOperator.from_operator_repr, eigenstates=eig, n_qudits=n, operations=operations)
    dd = dop.data.numpy()
    sd = sop.data.to_dense().numpy()
    close(dd, refO, "dense_operator_from_repr")
    close(sd, refO, "sparse_operator_from_repr")
    close(sd, dd, "dense_sparse_disagree")
    for cls in (DenseOperator, SparseOperator):
        try:
            cls.from_operator_repr(eigenstates=("0", "1"), n_qudits=n, operations=[(1.0, [({"01": 1.0}, {0})])])
            r.fail("accepts_01_basis:" + cls.__name__, "('0','1') basis accepted")
        except (NotImplementedError, ValueError):
            pass

    # ---- algebra on arbitrary vectors / matrices
    a = rng.normal(size=D) + 1j * rng.normal(size=D)
    b = rng.normal(size=D) + 1j * rng.normal(size=D)
    A = StateVector(torch.tensor(a), gpu=False)
    B = StateVector(torch.tensor(b), gpu=False)
    z = complex(*case["scalar"])
    a0, b0 = a.copy(), b.copy()
    close(cut(A.inner, B).numpy(), np.vdot(a, b), "inner", scale=np.linalg.norm(a) * np.linalg.norm(b))
    close(cut(inner, A, B).numpy(), np.vdot(a, b), "inner_fn", scale=np.linalg.norm(a) * np.linalg.norm(b))
    close(cut(A.norm).numpy(), np.linalg.norm(a), "norm")
    close(cut(A.overlap, B).numpy(), abs(np.vdot(a, b)) ** 2, "overlap", scale=(np.linalg.norm(a) * np.linalg.norm(b)) ** 2)
    close(cut(lambda: A + B).data.numpy(), a + b, "add")
    close(cut(lambda: z * A).data.numpy(), z * a, "rmul")
    close(cut(dop.apply_to, A).data.numpy(), refO @ a, "dense_apply_to", scale=max(1, np.abs(refO).sum(axis=1).max() * np.abs(a).max()))
    close(cut(sop.apply_to, A).data.numpy(), refO @ a, "sparse_apply_to", scale=max(1, np.abs(refO).sum(axis=1).max() * np.abs(a).max()))
    sc = max(1.0, np.linalg.norm(refO, 2) * np.linalg.norm(a) ** 2)
    close(cut(dop.expect, A).numpy(), np.vdot(a, refO @ a), "dense_expect", scale=sc)
    close(cut(sop.expect, A).numpy(), np.vdot(a, refO @ a), "sparse_expect", scale=sc)
    M = rng.normal(size=(D, D)) + 1j * rng.normal(size=(D, D))
    MO = DenseOperator(torch.tensor(M), gpu=False)
    close(cut(lambda: dop @ MO).data.numpy(), refO @ M, "dense_matmul", scale=max(1, np.linalg.norm(refO, 2) * np.linalg.norm(M, 2)))
    close(cut(lambda: dop + MO).data.numpy(), refO + M, "dense_add")
    close(cut(lambda: z * dop).data.numpy(), z * refO, "dense_rmul")
    close(cut(lambda: sop + sop).data.to_dense().numpy(), 2 * refO, "sparse_add")
    close(cut(lambda: z * sop).data.to_dense().numpy(), z * refO, "sparse_rmul")
    rho_a = cut(DensityMatrix.from_state_vector, A)
    close(rho_a.data.numpy(), np.outer(a, a.conj()), "dm_from_state_vector")
    rho_b = DensityMatrix(torch.tensor(np.outer(b, b.conj()) + 0.1 * (M + M.conj().T)), gpu=False)
    close(cut(rho_a.overlap, rho_b).numpy(), np.trace(rho_a.data.numpy().conj().T @ rho_b.data.numpy()), "dm_overlap",
          scale=np.linalg.norm(rho_a.data.numpy()) * np.linalg.norm(rho_b.data.numpy()))
    # operands unchanged by the non in-place operations above
    if not (np.array_equal(A.data.numpy(), a0) and np.array_equal(B.data.numpy(), b0)):
        r.fail("operand_mutated", "a state operand changed under a non in-place operation")
    if not np.array_equal(dop.data.numpy(), dd):
        r.fail("operand_mutated", "DenseOperator changed under a non in-place operation")
    if not np.array_equal(sop.data.to_dense().numpy(), sd):
        r.fail("operand_mutated:sparse", f"SparseOperator changed under a non in-place operation (sum / scaling by {z} / apply_to / expect): "
                                         f"max change {np.abs(sop.data.to_dense().numpy() - sd).max():.3e}")
    # and a second use of the same operands gives the same answers (history of two calls)
    close(cut(lambda: z * sop).data.to_dense().numpy(), z * refO, "sparse_rmul:second_use")
    close(cut(lambda: z * dop).data.numpy(), z * refO, "dense_rmul:second_use")
    close(cut(lambda: z * A).data.numpy(), z * a, "rmul:second_use")
    return r
