"""C33: configuration safeguards are always applied (Krylov tolerance floor, autosave interval, reordering switched off
for observables that cannot be un-permuted, DMRG refuses noise)."""
from __future__ import annotations

from hypothesis import strategies as st

from pbt import build, e2e
from pbt.common import Result, cut, CutRaised

ID = "C33"
LEVEL = "exploration"
TOL = {"krylov_floor": 1e-12, "floor_rel_slack": 1e-12}
RULE = ("generated MPSConfig arguments: precision 1e-1..1e-14, extra_krylov_tolerance 1e-9..1, autosave_dt around the 10 s "
        "limit (ints, floats, inf), observable subsets of all built-in observables plus EntanglementEntropy (with tag "
        "suffixes and duplicates), optimize_qubit_ordering, solver, noise models (each Lindbladian and non-Lindbladian "
        "type), prefer_device_noise_model with a device that has a default noise model; oracle: safeguards as "
        "documented, re-checked after with_changes(), copy/deepcopy and the abstract-repr round trip; DMRG + any noise "
        "(given directly or through the device) must raise before returning results (tiny end-to-end run).  "
        "non-trivial = a safeguard is actually exercised (tolerance below the floor, autosave_dt<=10, a non-permutable "
        "observable with reordering requested, DMRG with noise); distinct = case hash")
ASSUMPTIONS = ["observables that can be un-permuted are exactly those the backend re-indexes or that are scalars of the "
               "whole system: bitstrings, occupation, correlation_matrix, energy, energy_variance, energy_second_moment "
               "(and the internal statistics)"]

PERMUTABLE = {"bitstrings", "occupation", "correlation", "energy", "variance", "energy2"}
ALL_OBS = ["bitstrings", "occupation", "correlation", "energy", "variance", "energy2", "state", "fidelity", "expectation", "entropy"]


def budget(tier):
    return {"cases": 640 if tier == "quick" else 12000, "shards": 16, "wall": 600 if tier == "quick" else 3000}


@st.composite
def _cases(draw):
    kind = draw(st.sampled_from(["config"] * 9 + ["dmrg"]))
    c = {"kind": kind,
         "precision": 10.0 ** draw(st.integers(-14, -1)) * draw(st.sampled_from([1.0, 1.0, 3.0, 0.5])),
         "extra": 10.0 ** draw(st.integers(-9, 0)) * draw(st.sampled_from([1.0, 1.0, 2.0])),
         "autosave": draw(st.sampled_from([None, None, None, "inf", 10, 10.0, 10.000001, 11, 9.99, 0, -5, 1e9, 600.0])),
         "obs": draw(st.lists(st.sampled_from(ALL_OBS), min_size=1, max_size=5, unique=True)),
         "reorder": draw(st.sampled_from([True, True, False])),
         "change": draw(st.sampled_from(["none", "with_changes_reorder", "with_changes_obs", "deepcopy", "repr_roundtrip"])),
         "extra_obs": draw(st.sampled_from(ALL_OBS)),
         "seed": draw(st.integers(0, 2**20))}
    if kind == "dmrg":
        c["noise"] = draw(st.sampled_from(["dephasing", "relaxation", "depolarizing", "eff_noise", "spam_prep", "spam_readout",
                                           "amplitude", "detuning", "doppler", "none"]))
        c["via_device"] = draw(st.booleans())
        c["precision"] = 1e-6
        c["extra"] = 1e-3
        c["autosave"] = None
        c["obs"] = ["energy"]
    return c


def strategy(tier):
    return _cases()


NOISES = ["dephasing", "relaxation", "depolarizing", "eff_noise", "spam_prep", "spam_readout", "amplitude", "detuning", "doppler", "none"]


def fixed_cases(tier):
    """every (noise type, direct / via device default) combination for the DMRG clause"""
    return [{"kind": "dmrg", "noise": nz, "via_device": via, "precision": 1e-6, "extra": 1e-3, "autosave": None, "obs": ["energy"],
             "reorder": True, "change": "none", "extra_obs": "energy", "seed": 7} for nz in NOISES for via in (False, True)]


def _noise(name):
    import numpy as np
    from pulser import NoiseModel

    if name == "dephasing":
        return NoiseModel(dephasing_rate=0.3)
    if name == "relaxation":
        return NoiseModel(relaxation_rate=0.3)
    if name == "depolarizing":
        return NoiseModel(depolarizing_rate=0.2)
    if name == "eff_noise":
        return NoiseModel(eff_noise_opers=(np.array([[0, 1.0], [0, 0]]),), eff_noise_rates=(0.4,))
    if name == "spam_prep":
        return NoiseModel(state_prep_error=0.3, runs=1, samples_per_run=1)
    if name == "spam_readout":
        return NoiseModel(p_false_pos=0.1, p_false_neg=0.05)
    if name == "amplitude":
        return NoiseModel(amp_sigma=0.1, runs=1, samples_per_run=1)
    if name == "detuning":
        return NoiseModel(detuning_sigma=0.5, runs=1, samples_per_run=1)
    if name == "doppler":
        return NoiseModel(temperature=50.0, runs=1, samples_per_run=1)
    return None


def _observables(names, n=3):
    import numpy as np
    import torch
    from emu_mps import MPO, MPS

    st_ = MPS.make(n, eigenstates=("r", "g"))
    op = MPO.from_operator_repr(eigenstates=("r", "g"), n_qudits=n, operations=[(1.0, [({"rr": 1.0}, [0])])])
    return e2e.observables(names, [1.0], None, state=st_, oper=op, shots=10)


def check_case(case) -> Result:
    import copy
    import dataclasses
    import warnings

    import numpy as np

    r = Result()
    if case["kind"] == "dmrg":
        return _check_dmrg(case, r)
    from emu_mps import MPSConfig

    names = list(case["obs"])
    kw = dict(precision=case["precision"], extra_krylov_tolerance=case["extra"], optimize_qubit_ordering=case["reorder"],
              observables=_observables(names))
    a = case["autosave"]
    if a is not None:
        kw["autosave_dt"] = float("inf") if a == "inf" else a
    bad_autosave = a is not None and a != "inf" and float(a) <= 10
    below_floor = case["precision"] * case["extra"] < TOL["krylov_floor"]
    nonperm = [x for x in names if x not in PERMUTABLE]
    r.label("autosave:" + ("default" if a is None else ("rejectable" if bad_autosave else "legal")),
            "tol:" + ("below_floor" if below_floor else "above_floor"),
            "obs:" + ("nonpermutable" if nonperm else "permutable"), "reorder_req:" + str(case["reorder"]), "change:" + case["change"])
    r.nontrivial = bool(bad_autosave or below_floor or (nonperm and case["reorder"]) or
                        (case["change"].startswith("with_changes") and case["reorder"] and case["extra_obs"] not in PERMUTABLE))
    try:
        with warnings.catch_warnings():
            warnings.simplefilter("ignore")
            cfg = cut(e2e.mps_config, **kw)
    except CutRaised as e:
        if bad_autosave:
            return r  # rejected, as documented
        raise
    if bad_autosave:
        r.fail("autosave_dt_not_rejected", f"autosave_dt={a!r} accepted (config.autosave_dt={cfg.autosave_dt!r})")

    def safeguards(c, names_now, where):
        eff = float(c.precision) * float(c.extra_krylov_tolerance)
        if not eff >= TOL["krylov_floor"] * (1 - TOL["floor_rel_slack"]):
            r.fail("krylov_tolerance_below_floor:" + where, f"precision={c.precision!r} * extra_krylov_tolerance={c.extra_krylov_tolerance!r} = {eff!r} < 1e-12")
        if not below_floor and where == "constructed" and abs(float(c.extra_krylov_tolerance) - case["extra"]) > 1e-15 * case["extra"]:
            r.fail("extra_krylov_tolerance_changed_without_need", f"{case['extra']!r} -> {c.extra_krylov_tolerance!r}")
        if float(c.precision) != case["precision"]:
            r.fail("precision_changed", f"{case['precision']!r} -> {c.precision!r}")
        np_ = [x for x in names_now if x not in PERMUTABLE]
        if np_ and c.optimize_qubit_ordering:
            r.fail("reordering_kept_with_nonpermutable_observable:" + where, f"observables {names_now}, optimize_qubit_ordering={c.optimize_qubit_ordering}")
        if not np_ and where == "constructed" and bool(c.optimize_qubit_ordering) != bool(case["reorder"]):
            r.fail("reordering_changed_without_need", f"requested {case['reorder']}, got {c.optimize_qubit_ordering} for {names_now}")
        if not (float(c.autosave_dt) > 10):
            r.fail("autosave_dt_too_small:" + where, repr(c.autosave_dt))

    safeguards(cfg, names, "constructed")
    ch = case["change"]
    with warnings.catch_warnings():
        warnings.simplefilter("ignore")
        if ch == "with_changes_reorder":
            c2 = cut(cfg.with_changes, optimize_qubit_ordering=True)
            safeguards(c2, names, "with_changes")
        elif ch == "with_changes_obs":
            names2 = names + ([case["extra_obs"]] if case["extra_obs"] not in names else [])
            c2 = cut(cfg.with_changes, observables=_observables(names2), optimize_qubit_ordering=case["reorder"])
            safeguards(c2, names2, "with_changes")
            c3 = cut(cfg.with_changes, precision=1e-13, extra_krylov_tolerance=1e-3)
            if not float(c3.precision) * float(c3.extra_krylov_tolerance) >= 1e-12 * (1 - 1e-12):
                r.fail("krylov_tolerance_below_floor:with_changes", f"{c3.precision!r}*{c3.extra_krylov_tolerance!r}")
        elif ch == "deepcopy":
            c2 = copy.deepcopy(cfg)
            safeguards(c2, names, "deepcopy")
        elif ch == "repr_roundtrip" and not (set(names) & {"fidelity", "expectation", "state", "entropy"}):
            import json

            from emu_mps import MPSConfig as MC

            s = cut(cfg.to_abstract_repr)
            c2 = cut(MC.from_abstract_repr, s)
            safeguards(c2, names, "repr_roundtrip")
    return r


def _check_dmrg(case, r):
    import contextlib
    import dataclasses
    import io
    import warnings

    from emu_mps import MPSBackend
    from emu_mps.solver import Solver

    nm = _noise(case["noise"])
    seqc = {"reg": {"ids": ["a", "b", "c"], "coords": [[0.0, 0.0], [8.0, 0.0], [16.0, 0.0]]}, "basis": "rydberg", "device": "mock",
            "local": None, "dmm": None, "slm": None,
            "ops": [{"t": "pulse", "ch": "g", "amp": {"k": "const", "d": 20, "v": 3.0}, "det": {"k": "const", "d": 20, "v": 2.0}, "phase": 0.0}]}
    dev = None
    via = case["via_device"] and nm is not None
    if via:
        dev = dataclasses.replace(build.device("mock"), name="VerifNoisyDevice", default_noise_model=nm)
    seq = build.sequence(seqc, dev=dev)
    kw = dict(dt=10, precision=1e-6, solver=Solver.DMRG, observables=e2e.observables(["energy"], [1.0], None))
    if via:
        kw["prefer_device_noise_model"] = True
    elif nm is not None:
        kw["noise_model"] = nm
    r.label("dmrg", "noise:" + case["noise"], "via_device" if via else "direct")
    r.nontrivial = nm is not None
    e2e.seed_all(case["seed"])
    try:
        with warnings.catch_warnings():
            warnings.simplefilter("ignore")
            cfg = e2e.mps_config(**kw)
            with contextlib.redirect_stdout(io.StringIO()):
                res = MPSBackend(seq, config=cfg).run()
    except Exception as e:  # noqa: BLE001
        if nm is None:
            raise
        return r  # refused, as the property demands (any exception type)
    if nm is not None:
        r.fail("dmrg_ran_with_noise:" + case["noise"] + (":via_device" if via else ":direct"),
               f"run() returned results (tags {res.get_result_tags()}) for solver=DMRG with noise '{case['noise']}'"
               f"{' taken from the device default noise model' if via else ''}")
    return r
