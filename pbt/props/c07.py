"""C07: Krylov exponentiation is accurate when it reports convergence, and honest when it does not."""
from __future__ import annotations

from hypothesis import strategies as st

from pbt.common import Result, cut

ID = "C07"
LEVEL = "exploration"
TOL = {"factor_on_requested_tolerance": 10.0, "rounding_floor_rel": 2e-13}
RULE = ("operators of the three classes the emulators exponentiate: -i*dt*H (H Hermitian: dense random, banded, "
        "degenerate, block-diagonal with invariant subspaces so that happy breakdown occurs, Rydberg-like diagonal+"
        "flip structure, blockade-like = widely spread diagonal with weak flips and v = basis state + small amplitudes on high-energy states), -i*dt*(H - iG/2) with G PSD, dt*Lindbladian of small random open systems; dimension 1..256, "
        "norm ||A|| from 1e-3 to 60; v random / eigenvector / block-supported / basis vector, any norm; tolerance "
        "1e-4..1e-12 (norm_tolerance = exp_tolerance as every caller does); max_krylov_dim 1..100; is_hermitian set "
        "truthfully; oracle scipy.linalg.expm(A) @ v; non-trivial = dim >= 4 and ||A|| >= 0.1; distinct = case hash")
ASSUMPTIONS = ["matrices are built from the case's integer seed with numpy's PCG64 (pure function of the case)",
               "rounding floor 2e-10*|v| added to the 10*tol*|v| bound (Lanczos without re-orthogonalisation amplifies rounding when a sub-diagonal entry is just above the breakdown threshold)"]


def budget(tier):
    return {"cases": 3000 if tier == "quick" else 60000, "shards": 16, "wall": 600 if tier == "quick" else 3000}


@st.composite
def _cases(draw):
    cls = draw(st.sampled_from(["herm", "herm", "eff", "liouv"]))
    if cls == "liouv":
        nq = draw(st.integers(1, 4))
        dim = 4**nq
    else:
        dim = draw(st.one_of(st.integers(1, 8), st.integers(1, 64), st.integers(1, 256)))
    struct = draw(st.sampled_from(["dense", "banded", "degenerate", "blocks", "rydberg", "lowrank", "blockade", "blockade"]))
    vkinds = ["random", "random", "eigvec", "block", "basis", "two_eig", "near_basis"]
    if struct == "blockade":
        vkinds = ["near_basis", "near_basis", "near_basis", "random", "basis"]
    if struct == "blockade" and draw(st.booleans()):
        # aim the tolerance at the window where a first-order estimate and the true error differ most
        import math
        hi_amp = 10.0 ** draw(st.integers(-6, -2))
        norm = draw(st.sampled_from([0.3, 0.7, 1.0, 3.0, 10.0, 30.0]))
        k = int(math.floor(math.log10(hi_amp * min(norm, 3.0) ** 2 / 2))) - draw(st.integers(1, 2))
        return {"cls": "herm", "dim": draw(st.integers(4, 64)), "struct": struct,
                "offdiag": 10.0 ** draw(st.integers(-6, -3)), "hi_amp": hi_amp, "norm": norm, "vkind": "near_basis",
                "vnorm": draw(st.sampled_from([1.0, 1.0, 37.5])), "tol": 10.0 ** max(-12, min(-4, k)), "kdim": 100,
                "seed": draw(st.integers(0, 2**31 - 1)), "nblocks": 2}
    return {
        "cls": cls, "dim": dim, "struct": struct,
        "offdiag": 10.0 ** draw(st.integers(-5, -1)), "hi_amp": 10.0 ** draw(st.integers(-6, -2)),
        # |A| = dt*|H|: short steps under weak drives give 1e-3..5e-2, long steps under strong interactions up to 60
        "norm": draw(st.one_of(st.sampled_from([1.0, 10.0, 0.1, 0.03, 0.045]), st.floats(1e-3, 60.0), st.floats(1e-3, 0.06).map(lambda x: round(x, 5)))),
        "vkind": draw(st.sampled_from(vkinds)),
        "vnorm": draw(st.sampled_from([1.0, 1.0, 1e-3, 37.5, 1e4])),
        "tol": 10.0 ** draw(st.integers(-12, -4)),
        "kdim": draw(st.one_of(st.just(100), st.integers(1, 100), st.integers(1, 12))),
        "seed": draw(st.integers(0, 2**31 - 1)),
        "nblocks": draw(st.integers(2, 4)),
    }


def strategy(tier):
    return _cases()


def _herm(rng, dim, struct, nblocks):
    import numpy as np

    def gue(n):
        a = rng.normal(size=(n, n)) + 1j * rng.normal(size=(n, n))
        return (a + a.conj().T) / 2

    blocks = None
    if struct == "dense" or dim < 4:
        H = gue(dim)
    elif struct == "banded":
        H = gue(dim)
        bw = max(1, dim // 8)
        i, j = np.indices((dim, dim))
        H = np.where(np.abs(i - j) <= bw, H, 0)
    elif struct == "degenerate":
        k = max(1, dim // 4)
        ev = rng.choice(rng.normal(size=k), size=dim)
        q, _ = np.linalg.qr(rng.normal(size=(dim, dim)) + 1j * rng.normal(size=(dim, dim)))
        H = (q * ev) @ q.conj().T
    elif struct == "lowrank":
        k = max(1, min(3, dim - 1))
        u = rng.normal(size=(dim, k)) + 1j * rng.normal(size=(dim, k))
        H = u @ u.conj().T
    elif struct == "rydberg":
        diag = rng.normal(size=dim) * 5
        H = np.diag(diag).astype(complex)
        for b in range(int(np.log2(dim)) if dim >= 2 else 0):
            for i in range(dim):
                j = i ^ (1 << b)
                if j < dim:
                    H[i, j] += 0.5
    elif struct == "blockade":
        # what a weakly driven, strongly interacting register looks like: widely spread diagonal (interaction
        # energies), weak flip couplings; filled in by the caller with case["offdiag"]
        diag = np.sort(np.abs(rng.normal(size=dim))) * rng.choice([1.0, 10.0, 100.0])
        diag[0] = 0.0
        H = np.diag(diag).astype(complex)
        nb = max(1, int(np.ceil(np.log2(dim))))
        for b in range(nb):
            for i in range(dim):
                j = i ^ (1 << b)
                if j < dim:
                    H[i, j] += 1.0  # scaled by the caller
    else:  # blocks: invariant subspaces
        sizes = [dim // nblocks] * nblocks
        sizes[-1] += dim - sum(sizes)
        H = np.zeros((dim, dim), dtype=complex)
        blocks, o = [], 0
        for s in sizes:
            H[o:o + s, o:o + s] = gue(s)
            blocks.append((o, s))
            o += s
    H = (H + H.conj().T) / 2
    return H, blocks


def check_case(case) -> Result:
    import numpy as np
    import scipy.linalg as sla
    import torch
    from emu_base.math.krylov_exp import krylov_exp, krylov_exp_impl

    r = Result()
    rng = np.random.default_rng(case["seed"])
    dim, cls = case["dim"], case["cls"]
    blocks = None
    if cls == "liouv":
        nq = int(round(np.log(dim) / np.log(4)))
        d = 2**nq
        H, _ = _herm(rng, d, "dense", 2)
        Ls = [rng.normal(size=(d, d)) + 1j * rng.normal(size=(d, d)) for _ in range(rng.integers(1, 3))]
        Id = np.eye(d)
        A = -1j * (np.kron(H, Id) - np.kron(Id, H.T))
        for L in Ls:
            L = L * 0.3
            LdL = L.conj().T @ L
            A = A + np.kron(L, L.conj()) - 0.5 * np.kron(LdL, Id) - 0.5 * np.kron(Id, LdL.T)
        herm_flag = False
    else:
        H, blocks = _herm(rng, dim, case["struct"], case["nblocks"])
        if case["struct"] == "blockade" and dim >= 4:
            dg = np.diag(np.diag(H))
            H = dg + (H - dg) * case["offdiag"] * max(1e-12, np.abs(dg).max())
        if cls == "eff":
            g = rng.normal(size=(dim, max(1, dim // 3))) + 1j * rng.normal(size=(dim, max(1, dim // 3)))
            G = g @ g.conj().T
            G = G / max(1e-300, np.linalg.norm(G, 2)) * rng.uniform(0.01, 1.0) * max(1e-12, np.linalg.norm(H, 2))
            A = -1j * (H - 0.5j * G)
            herm_flag = False
        else:
            A = -1j * H
            herm_flag = True
    nrm = np.linalg.norm(A, 2)
    if nrm > 0:
        A = A * (case["norm"] / nrm)
    # vector
    vk = case["vkind"]
    v = rng.normal(size=dim) + 1j * rng.normal(size=dim)
    if vk == "eigvec" and cls != "liouv":
        w, V = np.linalg.eigh(1j * A if cls == "herm" else (1j * A + (1j * A).conj().T) / 2)
        v = V[:, rng.integers(0, dim)]
    elif vk == "two_eig" and cls == "herm":
        w, V = np.linalg.eigh(1j * A)
        v = V[:, rng.integers(0, dim)] + 0.5 * V[:, rng.integers(0, dim)]
    elif vk == "block" and blocks:
        o, s = blocks[rng.integers(0, len(blocks))]
        m = np.zeros(dim)
        m[o:o + s] = 1
        v = v * m
    elif vk == "basis":
        v = np.zeros(dim, dtype=complex)
        v[rng.integers(0, dim)] = 1
    elif vk == "near_basis":  # mostly the lowest basis state, small amplitudes elsewhere (incl. high-energy states)
        v = v * case["hi_amp"]
        v[0] = 1.0
    if np.linalg.norm(v) == 0:
        v[0] = 1
    v = v / np.linalg.norm(v) * case["vnorm"]
    exact = sla.expm(A) @ v
    At = torch.tensor(A, dtype=torch.complex128)
    tol, kdim = case["tol"], case["kdim"]
    r.label(cls, case["struct"] if cls != "liouv" else "liouv", vk)
    r.nontrivial = dim >= 4 and case["norm"] >= 0.1

    res = cut(krylov_exp_impl, lambda x: At @ x, torch.tensor(v, dtype=torch.complex128), is_hermitian=herm_flag,
              exp_tolerance=tol, norm_tolerance=tol, max_krylov_dim=kdim)
    vn = np.linalg.norm(v)
    err = np.linalg.norm(res.result.numpy() - exact)
    bound = TOL["factor_on_requested_tolerance"] * tol * vn + TOL["rounding_floor_rel"] * max(1.0, case["norm"]) * vn
    r.info = {"err_over_tol": float(err / (tol * vn)), "iters": res.iteration_count, "converged": bool(res.converged)}
    if res.iteration_count > kdim:
        r.fail("iteration_count_exceeds_max", f"{res.iteration_count} > {kdim}")
    if res.happy_breakdown:
        r.label("happy_breakdown")
        if not res.converged:
            r.fail("breakdown_without_converged", "happy_breakdown and not converged")
    if res.converged:
        r.label("converged")
        if not err <= bound:
            kind = "converged_but_inaccurate"
            from pbt.oracles import krylov_model

            # a fully faithful numpy model of the implementation (same stopping rule, the projected exponential
            # computed with torch.linalg.matrix_exp as the implementation does) against the same model with an accurate
            # exponential: if the first reproduces the result and the second meets the bound, the whole deviation is the
            # accuracy of torch.linalg.matrix_exp on the small projected matrix
            faithful = krylov_model.krylov_exp_prev_norm(A, v, tol, max_dim=kdim, hermitian=herm_flag, expm=krylov_model.torch_expm)[0]
            clean = krylov_model.krylov_exp_prev_norm(A, v, tol, max_dim=kdim, hermitian=herm_flag)[0]
            if np.linalg.norm(res.result.numpy() - faithful) <= 0.01 * err and np.linalg.norm(clean - exact) <= bound:
                kind += ":torch_matrix_exp_accuracy"
            elif res.happy_breakdown:
                kind += ":breakdown"
            else:
                # would the reference (Expokit) estimate, with the norm of A applied to the newest Krylov vector,
                # have accepted this order?  If not, this is the known stopping-rule finding.
                est = krylov_model.expokit_estimate(A, v, res.iteration_count)
                if est >= tol:
                    kind += ":estimate_uses_previous_vector_norm"
                else:
                    # even the reference estimate accepts this order.  If what was returned IS the order-m Krylov
                    # approximant (so the construction is right) the deviation is the estimator's own: Expokit's
                    # local error estimate is not a bound
                    approx = krylov_model.krylov_approximant(A, v, res.iteration_count)
                    same = np.linalg.norm(res.result.numpy() - approx) <= max(1e-9 * vn, 0.01 * err)
                    kind += ":reference_estimate_underestimates_too" if same else ":other"
            r.fail(kind,
                   f"|res-exact|={err:.3e} > 10*tol*|v|+floor={bound:.3e} (tol={tol:g}, |v|={vn:g}, dim={dim}, |A|={case['norm']:g}, "
                   f"iters={res.iteration_count}, hermitian={herm_flag})")
    else:
        r.label("not_converged")
    # public entry point: raises iff not converged, otherwise same vector
    try:
        pub = krylov_exp(lambda x: At @ x, torch.tensor(v, dtype=torch.complex128), exp_tolerance=tol, norm_tolerance=tol,
                         is_hermitian=herm_flag, max_krylov_dim=kdim)
        if not res.converged:
            r.fail("public_returned_although_not_converged", "krylov_exp returned a vector although the implementation reports non-convergence")
        elif np.linalg.norm(pub.numpy() - res.result.numpy()) > 1e-12 * vn:
            r.fail("public_differs_from_impl", "krylov_exp and krylov_exp_impl returned different vectors")
    except RecursionError:
        if res.converged:
            r.fail("public_raised_though_converged", "krylov_exp raised although impl converged")
    return r
