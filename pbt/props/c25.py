"""C25: badly prepared atoms behave as absent, on both backends."""
from __future__ import annotations

from hypothesis import strategies as st

from pbt import build, common, e2e, gen
from pbt.common import Result, cut

ID = "C25"
LEVEL = "exploration"
TOL = {"sv": 1e-7, "mps": "2*(20*(2(N-1)*precision+3N*precision*extra)*steps+2e-7) + 2*sum|U_ij|*T in the scaled-interaction regime"}
RULE = ("registers of 2-6 atoms with shuffled labels; state_prep_error noise with the bad-atom mask chosen by the generator "
        "(pulser's draw is intercepted, so every mask incl. none / one / all-but-one / all is reached by construction); "
        "global pulse plus a retargeted local channel; both backends; emu-mps with optimize_qubit_ordering on/off and "
        "with a leakage level (3-level effective noise at a negligible rate).  Metamorphic oracle: the same sequence on "
        "the register with the bad atoms removed; occupations, correlations and energy of the good atoms must agree, bad "
        "atoms must have occupation 0, zero correlation rows/columns and bit 0 in every shot.  The reduced run is on "
        "the same backend where that is the identical computation (emu-mps, reordering off) and on emu-sv where it is an "
        "exact reference (<=2 good atoms, or interactions scaled to ~1e-4 rad/us so that the TDVP projection error is "
        "bounded by sum|U|T).  non-trivial = >=1 bad and >=1 good atom with a non-zero drive; distinct = case hash")
ASSUMPTIONS = ["pulser's bad-atom draw (np.random.uniform(size=N) < state_prep_error) is replaced by the generated mask inside the harness",
               "leakage runs use an effective-noise rate of 1e-9/us: no jump occurs in practice, the run is deterministic"]


def budget(tier):
    return {"cases": 160 if tier == "quick" else 2400, "shards": 16, "wall": 900 if tier == "quick" else 3300}


@st.composite
def _cases(draw):
    backend = draw(st.sampled_from(["sv", "mps", "mps"]))
    seq = draw(gen.seq_cases(n_min=2, n_max=6, basis="rydberg", allow_mod=False, allow_dmm=False, allow_slm=False, max_ops=3, dur_hi=50,
                             dmin=6.0, dmax=10.0, amp_kinds=("const", "ramp", "blackman"), det_kinds=("const", "ramp")))
    ids = seq["reg"]["ids"]
    n = len(ids)
    mode = draw(st.sampled_from(["random", "random", "one_bad", "all_but_one", "all", "none"]))
    if mode == "random":
        mask = [draw(st.booleans()) for _ in range(n)]
    elif mode == "one_bad":
        k = draw(st.integers(0, n - 1))
        mask = [i == k for i in range(n)]
    elif mode == "all_but_one":
        k = draw(st.integers(0, n - 1))
        mask = [i != k for i in range(n)]
    elif mode == "all":
        mask = [True] * n
    else:
        mask = [False] * n
    npairs = n * (n - 1) // 2
    return {"seq": seq, "backend": backend, "mask": mask, "reorder": draw(st.booleans()), "leak": draw(st.integers(0, 3)) == 0,
            "pattern": draw(st.lists(st.sampled_from([0.0, 1.0, 0.3, 2.0, 0.05]), min_size=npairs, max_size=npairs)),
            "dt": draw(st.sampled_from([5, 10, 7])), "seed": draw(st.integers(0, 2**20))}


def strategy(tier):
    return _cases()


def _run(backend, seqc, *, mask, reorder, leak, U, dt, seed):
    """run one backend; mask=None -> noiseless register as given"""
    import contextlib
    import io
    import warnings

    import numpy as np
    import pulser.backend as pb
    from pulser import NoiseModel

    seq = build.sequence(seqc)
    ids = list(seq.register.qubit_ids)
    ev = [0.5, 1.0]
    obs = [pb.Occupation(evaluation_times=ev), pb.CorrelationMatrix(evaluation_times=ev), pb.Energy(evaluation_times=ev),
           pb.BitStrings(evaluation_times=[1.0], num_shots=64)]
    kw = dict(dt=dt, observables=obs)
    if U is not None:
        kw["interaction_matrix"] = U
    nmk = {}
    if mask is not None:
        nmk.update(state_prep_error=0.5, runs=1, samples_per_run=1)
    if leak and backend == "mps":
        op = np.zeros((3, 3))
        op[2, 2] = 1.0
        nmk.update(eff_noise_opers=(op,), eff_noise_rates=(1e-9,), with_leakage=True)
    if nmk:
        kw["noise_model"] = NoiseModel(**nmk)
    with warnings.catch_warnings():
        warnings.simplefilter("ignore")
        if backend == "sv":
            from emu_sv import SVBackend as B

            cfg = e2e.sv_config(krylov_tolerance=1e-10, **kw)
        else:
            from emu_mps import MPSBackend as B

            cfg = e2e.mps_config(precision=1e-8, optimize_qubit_ordering=reorder, **kw)
    e2e.seed_all(seed)
    with contextlib.redirect_stdout(io.StringIO()):
        if mask is not None:
            with e2e.forced_bad_atoms(mask) as fb:
                res = cut(B(seq, config=cfg).run)
            if fb.hits != 1:
                raise common.HarnessError(f"bad-atom draw intercepted {fb.hits} times")
        else:
            res = cut(B(seq, config=cfg).run)
    return res, ids, cfg


def check_case(case) -> Result:
    import numpy as np

    r = Result()
    seqc = case["seq"]
    ids = list(seqc["reg"]["ids"])
    n = len(ids)
    mask = list(case["mask"])
    good = [i for i in range(n) if not mask[i]]
    bad = [i for i in range(n) if mask[i]]
    backend = case["backend"]
    leak = bool(case["leak"]) and backend == "mps"
    # local channel must not start on / be retargeted to a bad atom in the reduced register: retarget to a good atom
    def reduced_seq():
        gids = [ids[i] for i in good]
        s = dict(seqc, reg=dict(seqc["reg"], ids=gids, coords=[seqc["reg"]["coords"][i] for i in good]))
        return s
    uses_bad_target = seqc["local"] is not None and (ids.index(seqc["local"]) in bad or any(
        o["t"] == "target" and ids.index(o["q"]) in bad for o in seqc["ops"]))
    if uses_bad_target:
        # a local pulse on a badly prepared atom does nothing in the full run; the reduced register cannot express it: drop the local channel
        seqc = dict(seqc, local=None, ops=[o for o in seqc["ops"] if o.get("ch") != "l" and o["t"] not in ("target", "align")])
        if not any(o["t"] == "pulse" for o in seqc["ops"]):
            seqc["ops"] = seqc["ops"] + [{"t": "pulse", "ch": "g", "amp": {"k": "const", "d": 20, "v": 4.0}, "det": {"k": "const", "d": 20, "v": 1.0}, "phase": 0.0}]
    # interaction regime
    P = np.zeros((n, n))
    k = 0
    for i in range(n):
        for j in range(i + 1, n):
            P[i, j] = P[j, i] = case["pattern"][k]
            k += 1
    scaled = backend == "mps" and case["reorder"] and len(good) > 2
    U = P * 1e-4 if scaled else None
    r.label(backend, f"n{n}", f"bad{len(bad)}" if len(bad) < n else "all_bad", "good0" if not good else ("good1" if len(good) == 1 else "good>=2"),
            "leak" if leak else "noleak", ("reorder_on" if case["reorder"] else "reorder_off") if backend == "mps" else "sv",
            "scaled_interactions" if scaled else "real_interactions")
    try:
        full, fids, cfg = _run(backend, seqc, mask=mask, reorder=case["reorder"], leak=leak, U=U, dt=case["dt"], seed=case["seed"])
    except common.CutRaised as e:
        if backend == "mps" and len(good) < 2 and isinstance(e.exc, ValueError) and e.frame.endswith("mps.py:make"):
            # specific known finding (see known_findings.txt); any other crash keeps its own kind
            r.fail("fewer_than_two_good_atoms:emu_mps", f"mask {mask}: {e}")
            r.nontrivial = bool(bad and good)
            return r
        raise
    if tuple(full.atom_order) != tuple(ids):
        r.fail("atom_order_not_register_order", f"{full.atom_order} vs {ids}")
    T = float(full.total_duration)
    nsteps = len(full.get_result_times("statistics")) if "statistics" in full.get_result_tags() else int(np.ceil(T / case["dt"]))
    drive = any(o["t"] == "pulse" for o in seqc["ops"])
    r.nontrivial = bool(bad and good and drive)
    # ---- bad atoms are dark
    for t, occ, cm in zip(full.get_result_times("occupation"), full.occupation, full.correlation_matrix):
        occ, cm = e2e.to_np(occ), e2e.to_np(cm)
        if occ.shape != (n,) or cm.shape != (n, n):
            r.fail("result_shape", f"{occ.shape} {cm.shape} for {n} atoms")
            return r
        if bad and (np.abs(occ[bad]).max() > 1e-12 or np.abs(cm[bad, :]).max() > 1e-12 or np.abs(cm[:, bad]).max() > 1e-12):
            r.fail("bad_atom_not_dark:" + backend, f"t={t}: occupation {occ.tolist()} mask {mask}")
            return r
    bs = full.bitstrings[-1]
    if sum(bs.values()) != 64 or any(len(s) != n for s in bs):
        r.fail("bitstrings_malformed", str(dict(bs))[:200])
    elif any(s[i] == "1" for s in bs for i in bad):
        r.fail("bad_atom_measured_excited:" + backend, f"{dict(bs)} mask {mask}")
    if not good:
        return r
    # ---- good atoms evolve as in the reduced register
    rs = reduced_seq()
    rs = dict(rs, local=seqc["local"], ops=seqc["ops"])
    Ur = U[np.ix_(good, good)] if U is not None else None
    if backend == "sv" or len(good) <= 2 or scaled:
        ref_backend = "sv"
    else:
        ref_backend = "mps"  # reordering off: the identical computation
    if len(good) == 1:
        Ur = None
    red, rids, rcfg = _run(ref_backend, rs, mask=None, reorder=False, leak=(leak and ref_backend == "mps"), U=Ur, dt=case["dt"], seed=case["seed"])
    if backend == "sv":
        tol = TOL["sv"]
    else:
        tol = 2 * (20.0 * (2 * (n - 1) * 1e-8 + 3 * n * 1e-8 * cfg.extra_krylov_tolerance) * max(nsteps, 1) + 2e-7)
        if scaled:
            tol += 2 * float(np.abs(np.triu(U, 1)).sum()) * T * 1e-3
    for tag, pick in (("occupation", lambda a: a[good]), ("correlation_matrix", lambda a: a[np.ix_(good, good)]), ("energy", lambda a: a)):
        for t, a, b in zip(full.get_result_times(tag), getattr(full, tag), getattr(red, tag)):
            a, b = pick(e2e.to_np(a)), e2e.to_np(b)
            sc = 1.0 if tag != "energy" else max(1.0 + 25.0 * n, float(np.max(np.abs(b))))
            err = float(np.max(np.abs(a - b))) / sc
            if not err <= tol:
                r.fail(f"good_atoms_differ_from_reduced_register:{tag}:{backend}" + (":reordered" if (backend == "mps" and case["reorder"]) else ""),
                       f"t={t}: |delta|={err:.3e} > {tol:.2e}; full(good) {np.round(a, 6).tolist()} reduced {np.round(b, 6).tolist()}; mask {mask}, "
                       f"n={n}, reference backend {ref_backend}")
                return r
    return r
