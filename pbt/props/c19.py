"""C19: Brent root finding terminates inside the bracket at a sign change; also when evaluations
are fed back one at a time with adversarial ordinates."""
from __future__ import annotations

import math

from hypothesis import strategies as st

from pbt.common import Result, cut

ID = "C19"
LEVEL = "exploration"
RULE = ("(a) find_root_brents on generated functions (polynomials with chosen roots and scales 1e-200..1e250, steep sigmoids, discontinuous "
        "steps, piecewise-linear with plateaus, exp-decay-minus-threshold like the solver, functions with exact zeros "
        "on probe points) over brackets spanning 12 decades; (b) BrentsRootFinder driven one ordinate at a time by "
        "Hypothesis-drawn adversarial ordinates (any sign/magnitude, zeros, repeats); tolerance >= 8 ulp of the "
        "bracket, epsilon in {1e-12..1e-3, 1}; non-trivial = >=3 evaluations; distinct = case hash")
ASSUMPTIONS = ["tolerances below the floating-point resolution of the bracket ends are outside the domain",
               "termination is checked as a step budget 20000 + 4*ceil(log2(width/tol))^2 (bounded safety, not liveness)"]


def budget(tier):
    return {"cases": 20000 if tier == "quick" else 400000, "shards": 16, "wall": 600 if tier == "quick" else 3000}


def _f(spec):
    t = spec["t"]
    if t == "poly":
        roots, sgn = spec["roots"], spec["sign"]

        def f(x):
            v = sgn
            for rt in roots:
                v *= (x - rt)
            return v
        return f
    if t == "sigmoid":
        k, x0, c = spec["k"], spec["x0"], spec["c"]
        return lambda x: math.tanh(k * (x - x0)) + c
    if t == "step":
        x0, lo, hi = spec["x0"], spec["lo"], spec["hi"]
        return lambda x: lo if x < x0 else hi
    if t == "pwl":
        xs, ys = spec["xs"], spec["ys"]

        def f(x):
            if x <= xs[0]:
                return ys[0]
            for i in range(1, len(xs)):
                if x <= xs[i]:
                    w = (x - xs[i - 1]) / (xs[i] - xs[i - 1])
                    return ys[i - 1] * (1 - w) + ys[i] * w
            return ys[-1]
        return f
    if t == "decay":
        lam, u, a = spec["lam"], spec["u"], spec["a"]
        return lambda x: math.exp(-lam * (x - a)) - u
    if t == "zeroat":  # exactly zero on a set of probe points, sign(x-x0) elsewhere
        x0, zeros = spec["x0"], set(spec["zeros"])
        return lambda x: 0.0 if x in zeros else (-1.0 if x < x0 else 1.0) * spec["m"]
    raise ValueError(t)


@st.composite
def _bracket(draw):
    centre = draw(st.one_of(st.just(0.0), st.floats(-1e6, 1e6).map(lambda v: round(v, 3)), st.floats(0, 1e4).map(lambda v: round(v, 3))))
    width = draw(st.one_of(st.floats(1e-6, 1e6), st.sampled_from([1.0, 10.0, 2.0, 0.5, 100.0])))
    a = centre - width / 2
    b = a + width
    if not b > a:
        b = math.nextafter(a, math.inf)
    ulp = max(math.ulp(a), math.ulp(b))
    tol = draw(st.one_of(st.sampled_from([1.0, 1e-6, 1e-3, 1e-9]), st.floats(1e-12, 10.0)))
    tol = max(tol, 8 * ulp, width * 1e-13)
    eps = draw(st.sampled_from([1.0, 1e-6, 1e-12, 1e-3, 1e-9]))
    return {"a": a, "b": b, "tol": tol, "eps": eps}


@st.composite
def _func_case(draw):
    br = draw(_bracket())
    a, b = br["a"], br["b"]
    w = b - a
    inside = st.floats(0.0, 1.0).map(lambda u: a + u * w)
    t = draw(st.sampled_from(["poly", "poly", "sigmoid", "step", "pwl", "decay", "zeroat"]))
    if t == "poly":
        k = draw(st.sampled_from([1, 1, 3, 3, 5]))  # an odd number of roots inside: opposite signs at the ends
        roots = sorted(draw(st.lists(inside, min_size=k, max_size=k)))
        extra = draw(st.lists(st.floats(-2, 3).map(lambda u: a + u * w), max_size=2))
        roots = roots + [e for e in extra if not (a <= e <= b)]
        spec = {"t": "poly", "roots": roots, "sign": draw(st.sampled_from([1.0, -1.0, 1e-3, -1e4, 1.0, -1.0, 1e-200, -1e-160, 1e150, -1e250]))}
    elif t == "sigmoid":
        spec = {"t": "sigmoid", "k": draw(st.floats(1e-3, 1e6)) / w * draw(st.sampled_from([1, -1])),
                "x0": draw(inside), "c": draw(st.floats(-0.9, 0.9))}
    elif t == "step":
        lo = draw(st.floats(1e-9, 1e3))
        hi = draw(st.floats(1e-9, 1e3))
        s = draw(st.sampled_from([1, -1]))
        spec = {"t": "step", "x0": draw(inside), "lo": -s * lo, "hi": s * hi}
    elif t == "pwl":
        k = draw(st.integers(2, 7))
        us = sorted(set(draw(st.lists(st.floats(0.0, 1.0), min_size=k, max_size=k)) + [0.0, 1.0]))
        xs = [a + u * w for u in us]
        ys = [draw(st.sampled_from([-1.0, 1.0, 0.0, 0.5, -2.0, 1e-6, -1e-6])) for _ in xs]
        spec = {"t": "pwl", "xs": xs, "ys": ys}
    elif t == "decay":
        spec = {"t": "decay", "lam": draw(st.floats(1e-3, 50.0)) / w, "u": draw(st.floats(0.01, 0.99)), "a": a}
    else:
        zs = draw(st.lists(st.sampled_from([0.5, 0.25, 0.75, 0.375, 0.625, 0.125]), min_size=1, max_size=4))
        spec = {"t": "zeroat", "x0": draw(inside), "zeros": [a + z * w for z in zs] + [a + w / 2, (a + b) / 2],
                "m": draw(st.sampled_from([1.0, -1.0, 1e-8]))}
    return {"mode": "func", "br": br, "f": spec}


@st.composite
def _adv_case(draw):
    br = draw(_bracket())
    mag = st.one_of(st.floats(1e-12, 1e6), st.sampled_from([1.0, 0.5, 1e-9, 0.1]))
    val = st.one_of(st.tuples(mag, st.sampled_from([1, -1])).map(lambda t: t[0] * t[1]),
                    st.sampled_from([0.0, 0.0, 1.0, -1.0]))
    fa = draw(mag) * draw(st.sampled_from([1, -1]))
    fb = -math.copysign(draw(mag), fa)
    ords = draw(st.lists(val, min_size=1, max_size=60))
    return {"mode": "adv", "br": br, "fa": fa, "fb": fb, "ords": ords, "norm_like": draw(st.booleans())}


def strategy(tier):
    return st.one_of(_func_case(), _adv_case())


def _budget_steps(width, tol):
    # "terminates" is checked as a generous step budget.  The implementation can crawl towards a root at exactly 0 from one
    # side at a linear rate until the abscissae underflow (736 evaluations observed for x (x + 1/4)^2 on [-1/2, 1/2] with
    # epsilon = 1; roots of higher multiplicity crawl more slowly): slow, but it terminates, which is all the property says
    return 20000 + 4 * math.ceil(max(1.0, math.log2(max(width / tol, 2.0)))) ** 2


def check_case(case) -> Result:
    from emu_base.math.brents_root_finding import BrentsRootFinder, find_root_brents

    r = Result()
    br = case["br"]
    a, b, tol, eps = br["a"], br["b"], br["tol"], br["eps"]
    steps_max = _budget_steps(b - a, tol)
    rec = []  # (abscissa, ordinate) as seen by the root finder
    r.label(case["mode"], f"eps{eps:g}")

    class Budget(Exception):
        pass

    if case["mode"] == "func":
        f0 = _f(case["f"])
        fa, fb = f0(a), f0(b)
        if not (fa * fb < 0):
            r.discard = "f(a)f(b) >= 0"
            return r
        rec += [(a, fa), (b, fb)]

        def f(x):
            if len(rec) > steps_max + 2:
                raise Budget()
            y = f0(x)
            rec.append((x, y))
            return y

        r.label("f:" + case["f"]["t"])
        try:
            x = cut(find_root_brents, f, start=a, end=b, f_start=fa, f_end=fb, tolerance=tol, epsilon=eps)
        except Exception as e:  # CutRaised wraps Budget too
            inner = getattr(e, "exc", None)
            if isinstance(inner, Budget):
                r.fail("no_termination", f"more than {steps_max} evaluations for width/tol={(b - a) / tol:.3g}")
                r.nontrivial = True
                return r
            raise
    else:
        fa, fb = case["fa"], case["fb"]
        ords = list(case["ords"])
        if case["norm_like"]:  # the solver's shape: ordinates in [-1, 1]
            ords = [max(-1.0, min(1.0, o)) for o in ords]
            fa, fb = max(-1.0, min(1.0, fa)), max(-1.0, min(1.0, fb))
            if fa == 0 or fb == 0:
                fa, fb = 0.5, -0.5
        rec += [(a, fa), (b, fb)]
        rf = cut(BrentsRootFinder, start=a, end=b, f_start=fa, f_end=fb, epsilon=eps)
        i = 0
        seen = {a: fa, b: fb}
        while not cut(rf.is_converged, tol):
            if i > steps_max:
                r.fail("no_termination", f"more than {steps_max} evaluations for width/tol={(b - a) / tol:.3g} (adversarial)")
                r.nontrivial = True
                return r
            x = cut(rf.get_next_abscissa)
            y = seen.get(x)
            if y is None:  # an adversarial *function*: same point -> same value
                y = ords[i % len(ords)]
                seen[x] = y
            rec.append((x, y))
            cut(rf.provide_ordinate, x, y)
            i += 1
        x = rf.current_guess
    n_eval = len(rec) - 2
    r.nontrivial = n_eval >= 3
    r.info = {"evaluations": n_eval}
    if any(y == 0 for _, y in rec):
        r.label("exact_zero_ordinate")
    lo, hi = min(a, b), max(a, b)
    out = [p for p, _ in rec if not (lo <= p <= hi)]
    if out:
        r.fail("abscissa_outside_bracket", f"queried {out[:3]} outside [{lo}, {hi}]")
    if not (lo <= x <= hi):
        r.fail("result_outside_bracket", f"returned {x} outside [{lo},{hi}]")
    near = [y for p, y in rec if abs(p - x) <= tol]
    if case["mode"] == "func":
        # the property is about a sign change of the *function* within tol of x, not only among the points the finder
        # happened to evaluate (a one-sided crawl ends with every evaluated neighbour on the same side of the root)
        near += [f0(max(lo, x - tol)), f0(min(hi, x + tol))]
    if not near or not (min(near) <= 0 <= max(near)):
        r.fail("no_sign_change_within_tol", f"x={x}, tol={tol}: evaluations within tol of x have ordinates {near[:6]} (no sign change)")
    return r
