"""C23: the interaction matrix follows the register, the cutoff, a user-supplied matrix and the SLM schedule."""
from __future__ import annotations

import math

from hypothesis import strategies as st

from pbt import build, e2e, gen
from pbt.common import Result, cut

ID = "C23"
LEVEL = "exploration"
TOL = {"geometry_rel": 1e-5, "custom_abs": 0.0}
RULE = ("registers in 2-D and 3-D (2..7 atoms), Rydberg and XY (generated magnetic field), optional user matrix of "
        "shape (N,N), (1,N,N) or (2,N,N) with any signs/zeros, cutoffs including values equal to an entry and values "
        "between entries, SLM target sets with pulse layouts that move the mask end, query times {0, end-eps, end, "
        "end+eps, mid, T}; oracle: C6/r^6 and C3(1-3cos^2)/r^3 from coordinates and device coefficients, cutoff and "
        "SLM semantics as stated, symmetry and zero diagonal; non-trivial = cutoff removes some but not all entries, "
        "or SLM mask active with a query before and after its end; distinct = case hash")
ASSUMPTIONS = ["the SLM mask end is taken from pulser's sampler (SequenceSamples._slm_mask.end)",
               "pulser rounds distances, hence 1e-5 relative tolerance on geometric entries; user entries must be exact",
               "in XY mode pulser >= 1.9 also carries a C6 slice; only the XY (first) slice is claimed here"]


def budget(tier):
    return {"cases": 1500 if tier == "quick" else 20000, "shards": 16, "wall": 600 if tier == "quick" else 3000}


@st.composite
def _cases(draw):
    basis = draw(st.sampled_from(["rydberg", "rydberg", "XY"]))
    dim3 = draw(st.integers(0, 3)) == 0
    reg = draw(gen.registers(2, 7, dmin=5.0, dmax=14.0, dim3=dim3))
    ids = reg["ids"]
    n = len(ids)
    slm = None
    if draw(st.booleans()):
        slm = sorted(draw(st.permutations(ids))[: draw(st.integers(1, n - 1))])
    ops = []
    if draw(st.booleans()):
        ops.append({"t": "delay", "ch": "g", "d": draw(st.integers(4, 40))})
    for _ in range(draw(st.integers(1, 2))):
        d = draw(st.integers(4, 60))
        ops.append({"t": "pulse", "ch": "g", "amp": {"k": "const", "d": d, "v": 2.0}, "det": {"k": "const", "d": d, "v": 0.0}, "phase": 0.0})
        if draw(st.booleans()):
            ops.append({"t": "delay", "ch": "g", "d": draw(st.integers(4, 20))})
    seq = {"reg": reg, "basis": basis, "device": "mock", "local": None, "dmm": None, "slm": slm, "ops": ops}
    if basis == "XY" and draw(st.booleans()):
        seq["mag"] = [draw(st.floats(-30, 30).map(lambda v: round(v, 3))) for _ in range(3)]
        if all(abs(v) < 1e-3 for v in seq["mag"]):
            seq["mag"][2] = 30.0
    custom = None
    if draw(st.booleans()):
        npairs = n * (n - 1) // 2
        vals = draw(st.lists(st.one_of(st.sampled_from([0.0, 1.0, -1.0, 5.0]), st.floats(-50, 50).map(lambda v: round(v, 6))),
                             min_size=npairs, max_size=npairs))
        shape = draw(st.sampled_from(["NN", "1NN", "2NN"])) if basis == "XY" else draw(st.sampled_from(["NN", "1NN"]))
        custom = {"vals": vals, "shape": shape, "diag": draw(st.sampled_from([0.0, 0.0, 0.0, 3.0]))}
    return {"seq": seq, "custom": custom,
            "cutoff_mode": draw(st.sampled_from(["none", "none", "equal_entry", "between", "huge", "tiny"])),
            "cutoff_pick": draw(st.integers(0, 40)), "backend": draw(st.sampled_from(["sv", "mps"]))}


def strategy(tier):
    return _cases()


def check_case(case) -> Result:
    import warnings

    import numpy as np
    from emu_base import PulserData

    r = Result()
    seqc = case["seq"]
    basis = seqc["basis"]
    seq = build.sequence(seqc)
    ids = list(seq.register.qubit_ids)
    n = len(ids)
    dev = seq.device
    # ---- reference full matrix
    if case["custom"] is not None:
        U = np.zeros((n, n))
        k = 0
        for i in range(n):
            for j in range(i + 1, n):
                U[i, j] = U[j, i] = case["custom"]["vals"][k]
                k += 1
        SC = np.abs(U)
        given = U.copy()
        if case["custom"]["diag"]:
            given[np.arange(n), np.arange(n)] = case["custom"]["diag"]
            r.label("custom_nonzero_diag")
        shape = case["custom"]["shape"]
        arr = given if shape == "NN" else (given[None] if shape == "1NN" else np.stack([given, 0.5 * given]))
        rel_tol = 0.0
        r.label("custom:" + shape)
    else:
        pos = np.array([np.asarray(seq.register.qubits[q].as_array() if hasattr(seq.register.qubits[q], "as_array") else seq.register.qubits[q], dtype=float) for q in ids])
        if pos.shape[1] == 2:
            pos = np.concatenate([pos, np.zeros((n, 1))], axis=1)
        U = np.zeros((n, n))
        SC = np.zeros((n, n))
        mag = np.array(seqc.get("mag") or [0.0, 0.0, 30.0], dtype=float)
        for i in range(n):
            for j in range(n):
                if i == j:
                    continue
                dvec = pos[i] - pos[j]
                dist = np.linalg.norm(dvec)
                if basis == "XY":
                    c = np.dot(dvec, mag) / (dist * np.linalg.norm(mag))
                    U[i, j] = dev.interaction_coeff_xy * (1 - 3 * c * c) / dist**3
                    SC[i, j] = dev.interaction_coeff_xy / dist**3  # near the magic angle the value itself is ~0
                else:
                    U[i, j] = dev.interaction_coeff / dist**6
                    SC[i, j] = U[i, j]
        arr = None
        rel_tol = TOL["geometry_rel"]
        r.label("from_register", "3d" if len(seqc["reg"]["coords"][0]) == 3 else "2d")
    # ---- cutoff
    entries = sorted({abs(v) for v in U[np.triu_indices(n, 1)] if v != 0})
    cutoff = 0.0
    mode = case["cutoff_mode"]
    if entries and mode == "equal_entry":
        cutoff = entries[case["cutoff_pick"] % len(entries)]
        if case["custom"] is None:
            mode = "between"  # cannot hit a geometric entry exactly from outside
    if entries and mode == "between":
        e = entries[case["cutoff_pick"] % len(entries)]
        cutoff = e * 1.001
    elif mode == "huge":
        cutoff = 1e9
    elif mode == "tiny":
        cutoff = 1e-12
    r.label("cutoff:" + mode, basis)
    want_full = U.copy()
    if case["custom"] is None:
        # entries within the geometric tolerance of the cutoff are undecidable: leave them out of the comparison
        undecided = np.abs(np.abs(U) - cutoff) <= rel_tol * np.abs(SC) * 10
    else:
        undecided = np.zeros_like(U, dtype=bool)
    want_full[np.abs(U) < cutoff] = 0.0
    kw = dict(dt=5, observables=e2e.observables(["occupation"], [1.0], None), interaction_cutoff=cutoff)
    if arr is not None:
        kw["interaction_matrix"] = arr
    with warnings.catch_warnings():
        warnings.simplefilter("ignore")
        cfg = cut(e2e.mps_config if (basis == "XY" or case["backend"] == "mps") else e2e.sv_config, **kw)
    pd = cut(PulserData, sequence=seq, config=cfg, dt=5)
    sd = cut(lambda: next(iter(pd.get_sequences())))
    T = float(seq.get_duration())
    end = e2e.slm_end_from_sampler(seq) if seqc["slm"] else 0.0
    masked = [ids.index(q) for q in (seqc["slm"] or [])]
    want_masked = want_full.copy()
    for m in masked:
        want_masked[m, :] = 0
        want_masked[:, m] = 0
    times = sorted({0.0, T, T / 2, max(0.0, end - 1e-6), end, min(T, end + 1e-6), max(0.0, end - 0.5), min(T, end + 0.5)})
    removed = int(np.sum((U != 0) & (want_full == 0)))
    kept = int(np.sum(want_full != 0))
    slm_active = bool(masked) and end > 0
    if slm_active:
        r.label("slm_active")
    r.nontrivial = (removed > 0 and kept > 0) or slm_active
    for t in times:
        M = cut(sd.interaction_matrix, t).numpy()
        want = want_masked if (slm_active and t < end) else want_full
        if M.shape != (n, n):
            r.fail("shape", f"{M.shape} for {n} atoms")
            return r
        if not np.array_equal(M, M.T):
            r.fail("not_symmetric", f"t={t}")
        # a user-supplied diagonal is "ignored" (pulser's wording): neither backend reads it (emu-sv sums j>i,
        # emu-mps zeroes it when building the MPO); that it has no effect on results is checked end to end in C01/C02
        if np.any(np.diag(M) != 0) and not (case["custom"] and case["custom"]["diag"]):
            r.fail("nonzero_diagonal", f"t={t}: diag {np.diag(M).tolist()} (user matrix diagonal {case['custom']['diag'] if case['custom'] else None})")
        W = want.copy()
        Mx = M.copy()
        np.fill_diagonal(Mx, 0.0)
        ok = np.abs(Mx - W) <= rel_tol * np.abs(SC) + 0.0
        ok |= undecided
        if not np.all(ok):
            i, j = np.argwhere(~ok)[0]
            phase = "before_mask_end" if (slm_active and t < end) else ("after_mask_end" if slm_active else "no_slm")
            what = "cutoff" if (W[i, j] == 0) != (Mx[i, j] == 0) and not (slm_active and (i in masked or j in masked)) else (
                "slm" if (slm_active and (i in masked or j in masked)) else "value")
            r.fail(f"matrix_entry:{what}:{phase}", f"t={t} (mask end {end}, T={T}) entry ({i},{j}): got {Mx[i, j]!r} want {W[i, j]!r}; cutoff={cutoff!r}")
    # ---- register (atom position) noise: every noise trajectory has its own register, hence its own matrix
    import json as _json
    import zlib

    seed_ = zlib.crc32(_json.dumps(case, sort_keys=True).encode())  # a deterministic function of the generated case
    if basis == "rydberg" and arr is None and n >= 2 and seed_ % 3 == 0:
        import pulser

        nmr = pulser.NoiseModel(temperature=80.0, trap_waist=1.0, trap_depth=150.0, disable_doppler=True)
        with warnings.catch_warnings():
            warnings.simplefilter("ignore")
            cfg_r = cut(e2e.sv_config, dt=5, observables=e2e.observables(["occupation"], [1.0], None), noise_model=nmr, n_trajectories=3)
        np.random.seed(seed_ % (2**32))
        pd_r = cut(PulserData, sequence=seq, config=cfg_r, dt=5)
        trajs = [s_.trajectory for s_ in pd_r.hamiltonian.noisy_samples for _ in range(s_.reps)]
        sds = cut(lambda: list(pd_r.get_sequences()))
        r.label("register_noise_trajectories")
        if len(sds) != len(trajs):
            r.fail("register_noise:trajectory_count", f"{len(sds)} sequences for {len(trajs)} requested trajectories")
            return r
        c6 = float(seq.device.interaction_coeff)
        distinct = set()
        for k_, (sd_, tr_) in enumerate(zip(sds, trajs)):
            pos = np.array([np.asarray(tr_.register.qubits[q], dtype=float) for q in ids])
            wantr = np.zeros((n, n))
            for i in range(n):
                for j in range(n):
                    if i != j:
                        wantr[i, j] = c6 / np.linalg.norm(pos[i] - pos[j]) ** 6
            gotr = cut(sd_.interaction_matrix, T).numpy().copy()
            np.fill_diagonal(gotr, 0.0)
            distinct.add(tuple(np.round(wantr[np.triu_indices(n, 1)], 9)))
            if np.abs(gotr - wantr).max() > 1e-5 * np.abs(wantr).max():
                r.fail("register_noise:matrix_not_from_the_trajectory_register",
                       f"trajectory {k_}: entries {np.round(gotr[np.triu_indices(n, 1)], 4).tolist()} vs C6/r^6 of its own register "
                       f"{np.round(wantr[np.triu_indices(n, 1)], 4).tolist()}")
                break
        if len(distinct) > 1:
            r.nontrivial = True
    return r
