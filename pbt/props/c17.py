"""C17: emu-mps quantum-jump trajectories reproduce Lindblad dynamics on average; every trajectory is physical."""
from __future__ import annotations

from hypothesis import strategies as st

from pbt import build, e2e
from pbt.common import Result, cut, HarnessError

ID = "C17"
LEVEL = "exploration"
TOL = {"mean_alpha": 1e-8, "no_jump_alpha": 1e-8, "no_jump_state": "20*(2(N-1)p+3Np*extra)*steps+1e-6"}
RULE = ("two-atom sequences (2-site TDVP is exact, so the only approximation is sampling) on emu-mps, ground-rydberg and XY, "
        "global drive plus a local pulse so that the atoms differ, noise = any of dephasing, relaxation, depolarizing, 2x2 "
        "effective noise and a leakage level with 3x3 effective-noise operators, rates chosen so that most trajectories "
        "contain jumps; M = 120 (thorough 2000) trajectories in one run (n_trajectories=M, per-trajectory results and "
        "jump counts observed through run-time wrappers).  Oracles: (1) per trajectory: occupations in [0,1], finite, "
        "atom order = register order; (2) mean occupation per atom and evaluation time vs the dense Lindblad solution "
        "built from Pulser's collapse operators (3-level where needed): |mean - exact| <= 5.5*sqrt(var/M) + 3/M; (3) "
        "the number of trajectories without any jump vs the exact no-jump probability |exp(-i H_eff T) psi0|^2 (exact "
        "binomial test, alpha 1e-8) -- a sharp test of the rates; (4) deterministic: with the jump threshold forced "
        "below zero the un-normalised trajectory equals the dense exp(-i H_eff t) psi0 at the end, and its squared norm "
        "the no-jump probability; (5) deterministic: with random.choices intercepted, the jump weights offered are "
        "<psi|L^dagger L|psi> per (atom, operator) and the state after a generated jump is L psi/|L psi| on that atom; "
        "(6) deterministic: the emulator's jump operators (one to three effective operators, each with its own rate) generate "
        "the same single-atom dissipator superoperator as Pulser's collapse operators; where the difference is exactly C24's "
        "known finding (three-level effective operators) the case continues with the emulator's operators as the master "
        "equation and is counted under the label excluded:C24_....  non-trivial = >=10% of the trajectories jump and >=10% do not; distinct = case hash")
ASSUMPTIONS = ["the Lindblad reference is the harness' dense integrator from Pulser's lindblad_data (pulser-simulation absent)",
               "statistical clauses: distribution-free Chernoff bound per (atom,time) and an exact binomial test (low power at M=120: the "
               "deterministic clauses (4) and (5) carry the quick tier); runs are "
               "deterministic given the case seed",
               "two atoms only: beyond that TDVP's projection error is not governed by precision (see C02)"]


def budget(tier):
    return {"cases": 96 if tier == "quick" else 320, "shards": 16, "wall": 900 if tier == "quick" else 3300}


def _c():
    return st.tuples(st.floats(-1.0, 1.0), st.floats(-1.0, 1.0)).map(lambda t: [round(t[0], 3), round(t[1], 3)])


@st.composite
def _cases(draw, M=300):
    basis = draw(st.sampled_from(["rydberg", "rydberg", "XY"]))
    leak = draw(st.integers(0, 3)) == 0
    d = 3 if leak else 2
    rate = st.sampled_from([2.0, 5.0, 10.0, 20.0])
    nm = {}
    kinds = draw(st.lists(st.sampled_from(["dephasing", "relaxation", "depolarizing", "eff"]), min_size=1, max_size=2, unique=True))
    if basis == "XY":
        kinds = [k for k in kinds if k != "relaxation"] or ["dephasing"]
    if leak and "eff" not in kinds:
        kinds.append("eff")
    for k in kinds:
        if k == "eff":
            # one to three effective operators, each with its own rate (rates mostly differ)
            ms, rs = [], []
            for _ in range(draw(st.sampled_from([1, 2, 2, 3]))):
                m = [[draw(_c()) if draw(st.booleans()) else [0.0, 0.0] for _ in range(d)] for _ in range(d)]
                if all(c == [0.0, 0.0] for row in m for c in row):
                    m[0][d - 1] = [1.0, 0.0]
                ms.append(m)
                rs.append(draw(rate))
            nm["eff_noise_opers"] = ms
            nm["eff_noise_rates"] = rs
        else:
            nm[k + "_rate"] = draw(rate)
    if leak:
        nm["with_leakage"] = True
    T = draw(st.sampled_from([40, 60]))
    # the register-order optimiser runs once per trajectory (~1.2 s each, 100 bandwidth samplings): mostly off here, and
    # with fewer trajectories when on
    reorder = draw(st.integers(0, 7)) == 0
    return {"basis": basis, "nm": nm, "T": T, "dt": draw(st.sampled_from([10, 20])), "amp": draw(st.sampled_from([4.0, 8.0, 12.0])),
            "det": draw(st.sampled_from([0.0, 3.0, -5.0])), "phase": draw(st.sampled_from([0.0, 1.0])), "U": draw(st.sampled_from([0.0, 3.0, -6.0, 10.0])),
            "local": draw(st.booleans()) and basis == "rydberg", "M": 40 if reorder else M, "seed": draw(st.integers(0, 2**20)),
            "reorder": reorder}


def strategy(tier):
    return _cases(M=120 if tier == "quick" else 2000)


def _sequence(case):
    ops = [{"t": "pulse", "ch": "g", "amp": {"k": "const", "d": case["T"], "v": case["amp"]}, "det": {"k": "const", "d": case["T"], "v": case["det"]},
            "phase": case["phase"], "protocol": "no-delay"}]
    if case["local"]:
        ops.insert(0, {"t": "pulse", "ch": "l", "amp": {"k": "const", "d": case["T"] // 2, "v": 6.0}, "det": {"k": "const", "d": case["T"] // 2, "v": 0.0},
                       "phase": 0.0, "protocol": "no-delay"})
    return {"reg": {"ids": ["b", "a"], "coords": [[0.0, 0.0], [8.0, 0.0]]}, "basis": case["basis"], "device": "mock",
            "local": "a" if case["local"] else None, "dmm": None, "slm": None, "ops": ops}


def check_case(case) -> Result:
    import contextlib
    import io
    import warnings

    import numpy as np
    import pulser.backend as pb
    import emu_mps.mps_backend_impl as impl_mod
    from emu_base import PulserData
    from emu_mps import MPSBackend
    from scipy.stats import binomtest

    from pbt.oracles import dense, tn

    r = Result()
    seqc = _sequence(case)
    seq = build.sequence(seqc)
    nm = build.noise_model(case["nm"])
    M = case["M"]
    ev = [0.5, 1.0]
    U = np.array([[0.0, case["U"]], [case["U"], 0.0]])
    Ucfg = np.stack([U, 0 * U]) if case["basis"] == "XY" else U
    prec = 1e-7
    kw = dict(dt=case["dt"], observables=[pb.Occupation(evaluation_times=ev)], noise_model=nm, interaction_matrix=Ucfg, precision=prec,
              optimize_qubit_ordering=bool(case.get("reorder", True)))
    with warnings.catch_warnings():
        warnings.simplefilter("ignore")
        cfg = e2e.mps_config(n_trajectories=M, **kw)
        cfg1 = e2e.mps_config(**kw)
    r.label(case["basis"], "leak" if case["nm"].get("with_leakage") else "noleak", *[k.replace("_rate", "") for k in case["nm"] if k.endswith("_rate")],
            "eff" if "eff_noise_opers" in case["nm"] else "no_eff", "local" if case["local"] else "global_only")
    if len(set(case["nm"].get("eff_noise_rates", []))) > 1:
        r.label("eff_rates_differ")
    # ---------------- dense Lindblad reference
    hd, trajs = dense.from_sequence(seq, noise_model=nm)
    basis, loc, traj, reps = trajs[0]
    loc = {q: {k: np.real(np.asarray(v, dtype=complex)) for k, v in d.items()} for q, d in loc.items()}
    eb = list(hd.basis_data.eigenbasis)
    d = len(eb)
    T = float(seq.get_duration())
    grid = dense.emu_grid(T, float(case["dt"]), ev)
    collapse = dense.pulser_collapse_ops(hd.lindblad_data, eb)
    kind = "rydberg" if case["basis"] == "rydberg" else "XY"
    qids = list(seq.register.qubit_ids)
    e2e.seed_all(case["seed"])
    sd0 = next(iter(PulserData(sequence=seq, config=cfg1, dt=cfg1.dt).get_sequences()))
    collapse_emu = [op.numpy() for op in sd0.lindblad_ops]
    # (6) deterministic and independent of the unravelling: the emulator's jump operators must generate the same
    # single-atom dissipator as Pulser's collapse operators
    De, Dp = dense.dissipator_super(collapse_emu, d), dense.dissipator_super(collapse, d)
    if np.abs(De - Dp).max() > 1e-9 * max(1.0, np.abs(Dp).max()):
        explained = False
        if d == 3 and kind == "rydberg" and "eff_noise_opers" in case["nm"]:
            # C24's known finding (three-level effective operators: only the top-left 2x2 block is re-indexed from
            # Pulser's (r, g, x) order).  Is the difference exactly that?  Then the search continues with the
            # emulator's own operators as the master equation, and the exclusion is counted.
            P = dense.basis_perm(eb, dense.emu_order_for(eb))
            good, bug = [], []
            for m, rate in zip(nm.eff_noise_opers, nm.eff_noise_rates):
                Mx = np.asarray(m, dtype=complex) * np.sqrt(float(rate))
                good.append(P @ Mx @ P.T)
                B = Mx.copy()
                B[:2, :2] = B[:2, :2][::-1, ::-1]
                bug.append(B)
            lhs = De - dense.dissipator_super(bug, d)
            rhs = Dp - dense.dissipator_super(good, d)
            explained = np.abs(lhs - rhs).max() <= 1e-9 * max(1.0, np.abs(Dp).max())
        if not explained:
            r.fail("jump_operators_generate_another_master_equation" + (":dim3" if d == 3 else ""),
                   f"max |D_emu - D_pulser| = {np.abs(De - Dp).max():.3e} (scale {np.abs(Dp).max():.3g}); noise {case['nm']}, basis {case['basis']}")
            return r
        r.label("excluded:C24_known_three_level_eff_operators(reference_uses_emulator_operators)")
        collapse = collapse_emu
    ref = dense.Reference(kind, qids, loc, lambda t: U, grid, d=d, collapse=collapse).run()
    # no-jump (effective Hamiltonian) reference.  The no-jump probability depends on the unravelling (L -> L + c*1 leaves
    # the master equation unchanged but not sum L^dagger L), so it is built from the jump operators the emulator itself
    # uses (that they represent Pulser's channels is C24's business); the Lindblad means below use Pulser's operators.
    extra = -0.5j * sum(L.conj().T @ L for L in collapse_emu)
    refnj = dense.Reference(kind, qids, loc, lambda t: U, grid, d=d, h_extra=extra).run()
    psi_nj = refnj.states[len(grid) - 1]
    p0 = float(np.vdot(psi_nj, psi_nj).real)

    # ---------------- (4) deterministic no-jump trajectory
    e2e.seed_all(case["seed"])
    sd = next(iter(PulserData(sequence=seq, config=cfg1, dt=cfg1.dt).get_sequences()))
    impl = impl_mod.create_impl(sd, cfg1)
    if not isinstance(impl, impl_mod.NoisyMPSBackendImpl):
        raise HarnessError("expected the noisy implementation")
    with contextlib.redirect_stdout(io.StringIO()):
        impl.init()
        impl.jump_threshold = -1.0
        impl.norm_gap_before_jump = float(impl.state.norm()) ** 2 + 1.0
        guard = 0
        while not impl.is_finished():
            cut(impl.progress)
            guard += 1
            if guard > 10000:
                raise HarnessError("no-jump run does not finish")
    got = tn.mps_to_dense(impl.state.factors)
    nsteps = len(grid) - 1
    tol_state = 20.0 * (2 * prec + 6 * prec * cfg1.extra_krylov_tolerance) * nsteps + 1e-6
    if np.abs(got - psi_nj).max() > tol_state:
        r.fail("no_jump_trajectory_differs_from_effective_hamiltonian" + (":dim3" if d == 3 else ""),
               f"max |psi - exp(-i H_eff T) psi0| = {np.abs(got - psi_nj).max():.3e} > {tol_state:.1e}; |psi|^2 = {np.vdot(got, got).real:.6f} vs no-jump probability {p0:.6f}; "
               f"noise {list(case['nm'])}, basis {case['basis']}")
        return r

    # ---------------- (5) deterministic: the jump itself.  At the end of the no-jump evolution the harness calls the
    # jump routine with random.choices intercepted: the offered weights must be <psi|L_k^dagger L_k|psi> per (atom,
    # operator) and, for a generated choice, the state after the jump must be L_k psi / |L_k psi| on that atom.
    import random as _random

    psi_before = got.copy()
    offered = {}
    orig_choices = _random.choices

    def choices(population, weights=None, **kw):
        offered["population"], offered["weights"] = list(population), list(weights)
        pos = [i for i, w in enumerate(weights) if w > 1e-12 * max(weights)]
        offered["index"] = pos[case["seed"] % len(pos)]
        return [population[offered["index"]]]

    _random.choices = choices
    try:
        cut(impl.do_random_quantum_jump)
    finally:
        _random.choices = orig_choices
    pop, wts = offered["population"], np.array(offered["weights"], dtype=float)
    want_w = np.array([np.vdot(psi_before, dense.site_op(op.numpy().conj().T @ op.numpy(), q, 2, d) @ psi_before).real for q, op in pop])
    if len(pop) != 2 * len(collapse_emu):
        r.fail("jump_candidates", f"{len(pop)} candidates for 2 atoms x {len(collapse_emu)} operators")
        return r
    if np.abs(wts / max(wts.sum(), 1e-300) - want_w / max(want_w.sum(), 1e-300)).max() > 1e-6:
        r.fail("jump_weights_differ" + (":dim3" if d == 3 else ""), f"offered {np.round(wts / wts.sum(), 6).tolist()} vs <L^dagger L> {np.round(want_w / want_w.sum(), 6).tolist()}")
        return r
    qj, opj = pop[offered["index"]]
    want_after = dense.site_op(opj.numpy(), qj, 2, d) @ psi_before
    want_after = want_after / np.linalg.norm(want_after)
    got_after = tn.mps_to_dense(impl.state.factors)
    if abs(np.linalg.norm(got_after) - 1) > 1e-9 or np.abs(got_after - want_after).max() > 1e-6:
        r.fail("state_after_jump_differs" + (":dim3" if d == 3 else ""),
               f"jump of operator #{offered['index'] % len(collapse_emu)} on atom {qj}: max diff {np.abs(got_after - want_after).max():.3e}, norm {np.linalg.norm(got_after)!r}")
        return r

    # ---------------- M trajectories in one run
    recorded, jumps = [], []
    orig_run = MPSBackend._run_from_sequence_data
    orig_jump = impl_mod.NoisyMPSBackendImpl.do_random_quantum_jump

    def spy(sequence_data, config):
        jumps.append(0)
        res = orig_run(sequence_data, config)
        recorded.append(res)
        return res

    def jump(self):
        jumps[-1] += 1
        return orig_jump(self)

    MPSBackend._run_from_sequence_data = staticmethod(spy)
    impl_mod.NoisyMPSBackendImpl.do_random_quantum_jump = jump
    e2e.seed_all(case["seed"])
    try:
        with contextlib.redirect_stdout(io.StringIO()):
            agg = cut(MPSBackend(seq, config=cfg).run)
    finally:
        MPSBackend._run_from_sequence_data = staticmethod(orig_run)
        impl_mod.NoisyMPSBackendImpl.do_random_quantum_jump = orig_jump
    if len(recorded) != M:
        r.fail("trajectory_count", f"{len(recorded)} != {M}")
        return r
    occ = np.array([[e2e.to_np(o) for o in rr.occupation] for rr in recorded])  # (M, times, atoms)
    if not np.all(np.isfinite(occ)) or occ.min() < -1e-9 or occ.max() > 1 + 1e-9:
        bad = int(np.argmax((occ < -1e-9).any(axis=(1, 2)) | (occ > 1 + 1e-9).any(axis=(1, 2)) | ~np.isfinite(occ).all(axis=(1, 2))))
        r.fail("trajectory_occupation_out_of_range", f"trajectory {bad}: {occ[bad].tolist()}")
        return r
    if any(tuple(rr.atom_order) != tuple(qids) for rr in recorded):
        r.fail("atom_order", "a trajectory does not list atoms in register order")
    njump0 = sum(1 for j in jumps if j == 0)
    frac_jump = 1 - njump0 / M
    r.nontrivial = 0.1 <= frac_jump <= 0.9
    r.info = {"no_jump_probability": p0, "trajectories_without_jump": njump0, "M": M, "mean_jumps": float(np.mean(jumps))}
    # (3) exact binomial test of the no-jump count
    pv = binomtest(njump0, M, min(max(p0, 0.0), 1.0)).pvalue
    if pv < TOL["no_jump_alpha"]:
        r.fail("no_jump_fraction_differs" + (":dim3" if d == 3 else ""),
               f"{njump0}/{M} trajectories without a jump, exact no-jump probability {p0:.5f} (p-value {pv:.1e}); noise {case['nm']}, basis {case['basis']}")
        return r
    # (2) means vs Lindblad
    times = list(recorded[0].get_result_times("occupation"))
    for ti, t_rel in enumerate(times):
        k = ref.index_of(float(t_rel) * T, tol=1e-6 * T)
        want = ref.occupation(k)
        mean = occ[:, ti, :].mean(axis=0)
        # Chernoff-Hoeffding bound for [0,1]-valued variables with known mean mu: P(|mean-mu| large) <= 2 exp(-M KL(mean||mu));
        # valid for any distribution on [0,1] (rare jumps make sample variances unreliable, so no z-test)
        thr = np.log(2.0 / TOL["mean_alpha"])
        for a in range(len(want)):
            mu = min(max(float(want[a]), 1e-12), 1 - 1e-12)
            q = min(max(float(mean[a]), 0.0), 1.0)
            kl = (q * np.log(q / mu) if q > 0 else 0.0) + ((1 - q) * np.log((1 - q) / (1 - mu)) if q < 1 else 0.0)
            if M * kl > thr and abs(q - mu) > 1e-6:
                r.fail("mean_differs_from_lindblad" + (":dim3" if d == 3 else ""),
                       f"t={t_rel}: atom {qids[a]} mean {q:.4f} vs exact {mu:.4f}: M*KL = {M * kl:.1f} > {thr:.1f} (M={M}); all means {np.round(mean, 4).tolist()} "
                       f"exact {np.round(want, 4).tolist()}; noise {case['nm']}, basis {case['basis']}")
                return r
        aggv = e2e.to_np(agg.occupation[ti])
        if np.abs(aggv - mean).max() > 1e-9:
            r.fail("aggregate_not_mean", f"t={t_rel}: {aggv.tolist()} vs {mean.tolist()}")
    return r
