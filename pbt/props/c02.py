"""C02: emu-mps TDVP noiseless runs reproduce the dynamics of the sampled piecewise-constant Pulser Hamiltonian."""
from __future__ import annotations

from hypothesis import strategies as st

from pbt import build, e2e, gen
from pbt.common import Result, cut
from pbt.props import c01

ID = "C02"
LEVEL = "exploration"
TOL = {"occupation_factor": 20.0, "per_step": "factor*(2(N-1)*precision + 3N*precision*extra_krylov_tolerance)*steps + 2e-7",
       "floor": 2e-7, "energy_scale": "max(1,||H||_2)", "state_factor": 3.0}
RULE = ("noiseless sequences on emu-mps, 2-6 atoms (thorough: up to 8): ground-rydberg over the full grammar (global + "
        "retargeted local channel, phases, DMM, SLM, delays, all waveform kinds, modulation) or XY (mw_global, SLM, user "
        "matrix with zero C6 slice); dt incl. non-dividing and <1; precision 1e-5..1e-8; max_bond_dim uncapped or small; "
        "max_krylov_dim; optimize_qubit_ordering on/off with shuffled labels (so the internal permutation is non-trivial) "
        "; interaction_cutoff; user interaction matrix; initial MPS from amplitudes; oracle: the independent dense expm "
        "chain of C01; compared: occupation, correlation matrix, energy, second moment, variance (always), state, "
        "fidelity, expectation (reordering off); outside the regimes where two-site TDVP is exact, runs of up to 8 "
        "atoms are compared with a dense numpy model of the documented TDVP step run in the same internal order "
        "(tolerance + half the model's own distance to the exact evolution); when max_bond_dim binds only validity clauses "
        "(norm, ranges, bond <= cap); non-trivial = non-zero interaction and drive, >=3 steps, final state differs from the initial one; "
        "distinct = case hash")
ASSUMPTIONS = list(c01.ASSUMPTIONS) + [
    "XY dynamics are checked with an explicit user matrix whose C6 slice is zero (what pulser 1.9 intends with the extra "
    "C6 slice in XY mode cannot be established offline)",
    "TDVP tolerance: 20*(2(N-1)*precision + 3N*precision*extra_krylov_tolerance)*steps + 2e-7, calibrated 10x above the "
    "largest deviation seen on the unchanged tree"]


def budget(tier):
    return {"cases": 192 if tier == "quick" else 2400, "shards": 16, "wall": 900 if tier == "quick" else 3300}


@st.composite
def _cases(draw, n_max=6):
    basis = draw(st.sampled_from(["rydberg", "rydberg", "rydberg", "XY"]))
    regime = draw(st.sampled_from(["exact", "exact", "exact", "exact", "free", "approx", "approx"]))
    n_hi = 4 if regime == "exact" else n_max
    seq = draw(gen.seq_cases(n_min=2 if regime != "approx" else 3, n_max=n_hi, basis=basis, allow_mod=True, max_ops=3, dur_hi=80,
                             dmin=5.5, dmax=11.0, allow_no_global=True))
    n = len(seq["reg"]["ids"])
    # force a healthy share of "permutation != identity and per-atom drive differs"
    if basis == "rydberg" and seq["local"] is None and seq["dmm"] is None and draw(st.booleans()):
        ids = seq["reg"]["ids"]
        seq["dmm"] = {ids[0]: 1.0}
        d = draw(st.integers(8, 60))
        seq["ops"].append({"t": "dmm", "wf": {"k": "const", "d": d, "v": -draw(st.sampled_from([4.0, 9.0, 15.0]))}})
    c = {"seq": seq, "dt": draw(gen.dts()), "precision": 10.0 ** draw(st.sampled_from([-5, -6, -7, -8])),
         "evals": [draw(gen.eval_time_sets(3)) for _ in range(3)],
         "add_mask_end": draw(st.integers(0, 4)) > 0,
         "init": None, "cutoff": draw(st.sampled_from([0.0, 0.0, 0.0, 1.0, 50.0])), "custom": None,
         "reorder": draw(st.booleans()), "obs_set": draw(st.sampled_from(["permutable", "permutable", "all"])),
         "max_bond": draw(st.sampled_from([None, None, None, 1, 2, 3])),
         "max_krylov": draw(st.sampled_from([100, 100, 30])),
         "regime": regime, "tier": "quick" if n_max <= 6 else "thorough", "seed": draw(st.integers(0, 2**20))}
    if regime == "exact":
        # saturated initial state: every amplitude non-zero, so every bond starts at its maximal dimension
        c["init"] = "saturated"
        if basis == "XY":
            c["reorder"] = False  # emu-mps cannot re-express a ('u','d') initial state in a permuted order
    elif basis == "rydberg" and draw(st.integers(0, 3)) == 0:
        k = draw(st.integers(1, min(4, 2**n)))
        strs = draw(st.lists(st.lists(st.sampled_from("rg"), min_size=n, max_size=n).map("".join), min_size=k, max_size=k, unique=True))
        c["init"] = {s: [draw(st.floats(-1, 1).map(lambda v: round(v, 4))), draw(st.floats(-1, 1).map(lambda v: round(v, 4)))] for s in strs}
        if all(abs(a[0]) + abs(a[1]) < 1e-3 for a in c["init"].values()):
            c["init"][strs[0]] = [1.0, 0.0]
    if regime == "free":
        c["custom"] = {"vals": [0.0] * (n * (n - 1) // 2), "diag": 0.0, "shape": "2NN" if basis == "XY" else "NN"}
        c["max_bond"] = None
    elif basis == "XY" or draw(st.integers(0, 3)) == 0:
        npairs = n * (n - 1) // 2
        c["custom"] = {"vals": draw(st.lists(st.one_of(st.sampled_from([0.0, 5.0, -3.0]), st.floats(-30, 30).map(lambda v: round(v, 4))),
                                             min_size=npairs, max_size=npairs)),
                       "diag": 0.0, "shape": draw(st.sampled_from(["NN", "2NN"])) if basis == "XY" else "NN"}
    return c


def strategy(tier):
    return _cases(n_max=6 if tier == "quick" else 8)


def check_case(case) -> Result:
    import warnings

    import numpy as np
    import torch
    import pulser.backend as pb
    from emu_mps import MPO, MPS, MPSBackend

    from pbt.oracles import tn

    r = Result()
    e2e.seed_all(case["seed"])
    seqc = case["seq"]
    seq = build.sequence(seqc)
    mod = seqc["device"] == "mod"
    n = len(seqc["reg"]["ids"])
    D = 2**n
    T = float(seq.get_duration(include_fall_time=mod))
    if T / float(case["dt"]) > 400:
        r.discard = "too many steps"
        return r
    rng = np.random.default_rng(case["seed"])
    evals = [list(ev) for ev in case["evals"]]
    slm_end = e2e.slm_end_from_sampler(seq) if seqc["slm"] else 0.0
    if seqc["slm"] and slm_end > 0 and case["add_mask_end"]:
        evals[0] = sorted(set(evals[0] + [slm_end / T]))
    case = dict(case, evals=evals)
    all_obs = case["obs_set"] == "all"
    xy = seqc["basis"] == "XY"
    eig = ("r", "g")
    obs = [pb.Occupation(evaluation_times=evals[0]), pb.CorrelationMatrix(evaluation_times=evals[1]),
           pb.Energy(evaluation_times=evals[1]), pb.EnergySecondMoment(evaluation_times=evals[2]),
           pb.EnergyVariance(evaluation_times=evals[2])]
    fv = Om = None
    if all_obs:
        obs.append(pb.StateResult(evaluation_times=evals[0]))
        if not xy:
            # fidelity state and expectation operator built through the public constructors
            k = int(rng.integers(1, min(4, D) + 1))
            idx = rng.choice(D, size=k, replace=False)
            amps = {format(int(i), f"0{n}b").replace("0", "g").replace("1", "r"): complex(rng.normal(), rng.normal()) for i in idx}
            fid_state = cut(MPS.from_state_amplitudes, eigenstates=eig, amplitudes=amps)
            fv = np.zeros(D, dtype=complex)
            for s, a in amps.items():
                fv[int(s.replace("r", "1").replace("g", "0"), 2)] = a
            fv /= np.linalg.norm(fv)
            obs.append(pb.Fidelity(fid_state, evaluation_times=evals[2]))
            # operator: sum of two weighted products of single-site projectors/transitions
            from pbt.oracles import dense
            ops_repr = []
            Om = np.zeros((D, D), dtype=complex)
            for _ in range(2):
                w = complex(round(rng.normal(), 3), 0.0)
                q1, q2 = (int(x) for x in rng.choice(n, size=2, replace=False))
                s1 = str(rng.choice(["gg", "rr", "gr", "rg"]))
                term = [({s1: 1.0}, [q1]), ({"rr": 1.0}, [q2])]
                ops_repr.append((w, term))
                m1 = np.zeros((2, 2), dtype=complex)
                m1["gr".index(s1[0]), "gr".index(s1[1])] = 1
                Om += w * dense.site_op(m1, q1, n) @ dense.site_op(dense.n_op(), q2, n)
            oper = cut(MPO.from_operator_repr, eigenstates=eig, n_qudits=n, operations=ops_repr)
            obs.append(pb.Expectation(oper, evaluation_times=evals[0]))
    kw = dict(dt=case["dt"], observables=obs, precision=case["precision"], with_modulation=mod,
              interaction_cutoff=case["cutoff"], optimize_qubit_ordering=case["reorder"], max_krylov_dim=case["max_krylov"])
    if case["max_bond"] is not None:
        kw["max_bond_dim"] = case["max_bond"]
    psi0 = None
    if case["init"] == "saturated":
        psi0 = rng.normal(size=D) + 1j * rng.normal(size=D)
        psi0 /= np.linalg.norm(psi0)
        if xy:
            kw["initial_state"] = MPS(tn.dense_to_mps(psi0, n, 2), eigenstates=("u", "d"), num_gpus_to_use=0)
        else:
            amps0 = {format(i, f"0{n}b").replace("0", "g").replace("1", "r"): complex(psi0[i]) for i in range(D)}
            kw["initial_state"] = cut(MPS.from_state_amplitudes, eigenstates=eig, amplitudes=amps0)
        r.label("initial_state_saturated")
    elif case["init"] is not None:
        amps0 = {s: complex(*a) for s, a in case["init"].items()}
        kw["initial_state"] = cut(MPS.from_state_amplitudes, eigenstates=eig, amplitudes=amps0)
        psi0 = np.zeros(D, dtype=complex)
        for s, a in amps0.items():
            psi0[int(s.replace("r", "1").replace("g", "0"), 2)] = a
        psi0 /= np.linalg.norm(psi0)
        r.label("initial_state")
    if case["custom"] is not None:
        M = np.zeros((n, n))
        k = 0
        for i in range(n):
            for j in range(i + 1, n):
                M[i, j] = M[j, i] = case["custom"]["vals"][k]
                k += 1
        kw["interaction_matrix"] = np.stack([M, 0 * M]) if case["custom"].get("shape") == "2NN" else M
        r.label("custom_matrix")
    with warnings.catch_warnings():
        warnings.simplefilter("ignore")
        cfg = cut(e2e.mps_config, **kw)
    refs, info = c01.reference(case, seq, psi0=psi0)
    import contextlib
    import io

    init_before = tn.mps_to_dense(cfg.initial_state.factors) if cfg.initial_state is not None else None
    with contextlib.redirect_stdout(io.StringIO()):
        backend = MPSBackend(seq, config=cfg)
        res = cut(backend.run)
        if case["seed"] % 3 == 0:  # history: the second run of the same backend object is the one judged
            first, first_occ = res, [e2e.to_np(x).copy() for x in res.occupation]
            res = cut(backend.run)
            r.label("second_run_of_the_same_backend")
            if any(np.abs(e2e.to_np(a) - b).max() > 0 for a, b in zip(first.occupation, first_occ)):
                r.fail("second_run_changed_the_first_results", "occupations of the Results returned by the first run changed during the second run")
    if init_before is not None:
        ch = float(np.abs(tn.mps_to_dense(cfg.initial_state.factors) - init_before).max())
        if ch > 1e-12:
            r.fail("run_modified_the_configured_initial_state", f"max change {ch:.3e}")

    grid = info["grid"]
    nsteps = len(grid) - 1
    prec = case["precision"]
    extra = cfg.extra_krylov_tolerance
    base = (2 * (n - 1) * prec + 3 * n * prec * extra) * nsteps
    tol = TOL["occupation_factor"] * base + TOL["floor"]
    ref0 = refs[0]
    final_overlap = abs(np.vdot(ref0.states[0], ref0.states[nsteps]))
    drive = float(np.abs(ref0.amp).max())
    r.nontrivial = bool(np.abs(info["U"]).max() > 0 and drive > 0 and nsteps >= 3 and final_overlap < 0.999)
    want_nontrivial_exact = True
    reorder_effective = bool(cfg.optimize_qubit_ordering)
    # did the optimiser actually pick a non-identity order?  (same call the backend makes)
    perm_nontrivial = False
    if reorder_effective:
        import emu_mps.optimatrix as optimat

        e2e.seed_all(case["seed"])
        Ufin = torch.tensor(info["U"])
        p = optimat.minimize_bandwidth(Ufin)
        perm_nontrivial = p.tolist() != list(range(n))
    per_atom = bool(seqc["local"] or seqc["dmm"] or seqc["slm"])
    r.label(f"n{n}", seqc["basis"], "mod" if mod else "nomod", "local" if seqc["local"] else "nolocal",
            "dmm" if seqc["dmm"] else "nodmm", "slm" if seqc["slm"] else "noslm",
            "reorder_on" if reorder_effective else "reorder_off", "obs_all" if all_obs else "obs_permutable",
            f"prec1e{int(round(np.log10(prec)))}")
    if perm_nontrivial:
        r.label("perm_nontrivial")
        if per_atom:
            r.label("perm_nontrivial_and_per_atom_drive")
    if info["straddle"]:
        r.label("slm_straddle")
    if tuple(res.atom_order) != tuple(seq.register.qubit_ids):
        r.fail("atom_order_not_register_order", f"{res.atom_order} vs {tuple(seq.register.qubit_ids)}")

    stats = res.statistics
    max_bond_seen = max(int(s["max_bond_dimension"]) for s in stats)
    cap = case["max_bond"]
    if cap is not None and max_bond_seen > cap:
        r.fail("bond_exceeds_cap", f"max bond {max_bond_seen} > max_bond_dim {cap}")
    cap_binds = cap is not None and max_bond_seen >= cap and cap < 2 ** (n // 2)
    if cap_binds:
        r.label("cap_binds")
    # 2-site TDVP is exact (up to truncation and Krylov error) only where its tangent-space projector is the
    # identity at every sub-step: two atoms; <=4 atoms with every bond saturated; or no interactions at all.
    # Elsewhere the documented projection / sweep errors (docs/emu_mps/advanced/errors.md, A and B) are not
    # controlled by `precision`, so only the validity clauses are applied.
    exact = (n == 2 or (n <= 4 and case["init"] == "saturated") or float(np.abs(info["U"]).max()) == 0.0) and not cap_binds
    # Outside the exact regimes the emulator is compared with a dense reference *model* of the documented two-site TDVP
    # step (pbt/oracles/tdvp_model.py: numpy, exact exponentials of the projected Hamiltonians, SVD truncation with the
    # same rule), run in the same internal order.  Truncation decisions taken at the threshold may differ between the
    # two, which moves them apart by a fraction of TDVP's own error: half the model's distance to the exact evolution
    # is added to the tolerance.
    model_ref = None
    n_model = 8  # dense 2^8: a TDVP-model step costs milliseconds with single-threaded BLAS
    if not exact and len(refs) == 1 and n <= n_model:
        import copy

        from pbt.oracles import tdvp_model

        perm = p.tolist() if perm_nontrivial else None
        mstates, mbonds = tdvp_model.run(ref0, psi0=psi0, precision=prec, max_bond=cap if cap is not None else 1024, perm=perm)
        model_ref = copy.copy(ref0)
        # observables are reported for the normalised state (a binding bond cap lowers the norm)
        model_ref.states = {k_: v_ / max(np.linalg.norm(v_), 1e-300) for k_, v_ in mstates.items()}
    r.label("regime:" + ("exact" if exact else ("tdvp_model" if model_ref is not None else "validity_only")))

    def best_err(t_rel, v, ref_value, scale_of):
        best = None
        for ref in refs:
            k = ref.index_of(float(t_rel) * info["T"], tol=1e-6 * max(1.0, info["T"]))
            want = ref_value(ref, k)
            sc = scale_of(ref, k) if scale_of else 1.0
            err = float(np.max(np.abs(e2e.to_np(v) - want))) / max(sc, 1e-300)
            best = err if best is None else min(best, err)
        return best

    def agree(tag, getter, ref_value, scale_of=None, factor=1.0, rng_check=None):
        if tag not in res.get_result_tags():
            r.fail("missing_tag:" + tag, str(res.get_result_tags()))
            return
        got_times = res.get_result_times(tag)
        vals = getter()
        for t_rel, v in zip(got_times, vals):
            vv = e2e.to_np(v)
            if rng_check is not None:
                lo, hi = rng_check
                if np.any(np.real(vv) < lo - 1e-7) or np.any(np.real(vv) > hi + 1e-7) or not np.all(np.isfinite(vv)):
                    r.fail("out_of_range:" + tag, f"t={t_rel}: {vv.tolist()}")
                    return
            if not exact:
                if model_ref is not None:
                    k = ref0.index_of(float(t_rel) * info["T"], tol=1e-6 * max(1.0, info["T"]))
                    sc = scale_of(ref0, k) if scale_of else 1.0
                    wm, we = ref_value(model_ref, k), ref_value(ref0, k)
                    err = float(np.max(np.abs(e2e.to_np(v) - wm))) / max(sc, 1e-300)
                    allowed = factor * tol + 0.5 * float(np.max(np.abs(np.asarray(wm) - np.asarray(we)))) / max(sc, 1e-300)
                    if not err <= allowed:
                        kind = "differs_from_tdvp_model:" + tag + (":reordered_per_atom_drive" if (perm_nontrivial and per_atom) else "")
                        r.fail(kind, f"{tag} t={float(t_rel):.6g}: |emulator - dense TDVP model| = {err:.3e} > {allowed:.3e} (model vs exact evolution "
                                     f"{float(np.max(np.abs(np.asarray(wm) - np.asarray(we)))) / max(sc, 1e-300):.3e}; precision={prec:g}, steps={nsteps}, n={n}, "
                                     f"reorder={reorder_effective}, perm_nontrivial={perm_nontrivial})")
                        return
                continue
            try:
                best = best_err(t_rel, v, ref_value, scale_of)
            except KeyError:
                r.fail("result_at_unrequested_time:" + tag, f"t={t_rel!r}")
                return
            if not best <= factor * tol:
                kind = "differs_from_reference:" + tag
                if perm_nontrivial and per_atom:
                    kind += ":reordered_per_atom_drive"
                r.fail(kind, f"{tag} t={float(t_rel):.6g}: error {best:.3e} > tol {factor * tol:.3e} (precision={prec:g}, steps={nsteps}, "
                             f"n={n}, dt={case['dt']}, reorder={reorder_effective}, perm_nontrivial={perm_nontrivial}, basis={seqc['basis']})")
                return

    def H_for(ref, k):
        return ref.H[k - 1] if k > 0 else ref.h_step(0, U=ref.U_of_t(ref.grid[0]))

    def normH(ref, k):
        return max(1.0, float(np.linalg.norm(H_for(ref, k), 2)))

    agree("occupation", lambda: res.occupation, lambda ref, k: ref.occupation(k), rng_check=(0.0, 1.0))
    agree("correlation_matrix", lambda: res.correlation_matrix, lambda ref, k: ref.correlation(k), rng_check=(0.0, 1.0))
    agree("energy", lambda: res.energy, lambda ref, k: np.real(ref.expect(k, H_for(ref, k))), scale_of=normH)
    agree("energy_second_moment", lambda: res.energy_second_moment,
          lambda ref, k: np.real(ref.expect(k, H_for(ref, k) @ H_for(ref, k))), scale_of=lambda ref, k: normH(ref, k) ** 2, factor=3.0)
    agree("energy_variance", lambda: res.energy_variance,
          lambda ref, k: np.real(ref.expect(k, H_for(ref, k) @ H_for(ref, k))) - np.real(ref.expect(k, H_for(ref, k))) ** 2,
          scale_of=lambda ref, k: normH(ref, k) ** 2, factor=3.0)
    if all_obs:
        states = [tn.mps_to_dense(s.factors) for s in res.state]
        for s, t_rel in zip(states, res.get_result_times("state")):
            if abs(np.linalg.norm(s) - 1) > 1e-6:
                r.fail("state_not_normalised", f"t={t_rel}: norm {np.linalg.norm(s)!r}")
                break
        agree("state", lambda: states, lambda ref, k: ref.states[k], factor=TOL["state_factor"])
        if fv is not None:
            agree("fidelity", lambda: res.fidelity, lambda ref, k: abs(np.vdot(fv, ref.states[k])) ** 2, rng_check=(0.0, 1.0))
            agree("expectation", lambda: res.expectation, lambda ref, k: ref.expect(k, Om),
                  scale_of=lambda ref, k: max(1.0, float(np.linalg.norm(Om, 2))))
    return r
