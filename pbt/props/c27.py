"""C27: once a first autosave has completed, a crash at any point during a later autosave leaves a loadable snapshot
under the advertised file name (fault enumeration over file-system events)."""
from __future__ import annotations

from hypothesis import strategies as st

from pbt import crash, e2e
from pbt.common import Result
from pbt.props import c26

ID = "C27"
LEVEL = "fault_enumeration"
TOL = {"values": 1e-9}
RULE = ("small emu-mps runs (TDVP / DMRG, 3-4 atoms, shuffled register order, reordering on/off) in which the harness "
        "forces an autosave at every progress step.  For a later save s >= 2 (generated; thorough: every s) the harness "
        "numbers every file-system event Python emits for the autosave directory during that save (open for writing, "
        "rename/replace, remove/unlink, truncate, link; observed with sys.addaudithook, so the enumeration follows any "
        "refactoring of the save routine) and, for EVERY event index j and additionally for 'after the last event', "
        "kills the run with a BaseException before event j; for every open-for-writing the torn-write variant truncates "
        "the file being written to a generated fraction at the moment of the crash.  Oracle after each crash: the "
        "advertised autosave path is a regular file, MPSBackend.resume loads it and finishes, and its results equal the "
        "uninterrupted run (values 1e-9, atom order, times).  non-trivial = crash strictly between two file-system "
        "events of a save, or a torn write; distinct = (case, s, j, variant)")
ASSUMPTIONS = ["crash = nothing after the raise point executes; the OS is assumed to apply each completed rename/remove atomically and durably",
               "the wall-clock gate of save_simulation is bypassed by the harness (last_save_time=-inf)"]
UNITS_NAME = "crash_states_explored"
EXHAUSTIVE_NOTE = "for each selected save, every file-system event boundary (plus torn variants) is enumerated"
EXHAUSTIVE = False


def budget(tier):
    return {"cases": 32 if tier == "quick" else 160, "shards": 16, "wall": 900 if tier == "quick" else 3300}


@st.composite
def _cases(draw, all_s=False):
    kind = draw(st.sampled_from(["tdvp", "tdvp", "dmrg"]))
    n = draw(st.integers(3, 4))
    return {"kind": kind, "n": n, "order": list(draw(st.permutations(list(range(n))))), "spacing": draw(st.sampled_from([6.0, 7.5])),
            "steps": draw(st.integers(2, 3)), "target": draw(st.integers(0, n - 1)), "reorder": draw(st.booleans()),
            "extra_obs": False, "all_k": False, "ks": [1], "n_traj": 0, "all_s": all_s,
            "saves": draw(st.lists(st.integers(2, 400), min_size=1, max_size=2)),
            "torn": draw(st.sampled_from([0.0, 0.1, 0.5, 0.9, 0.999])), "seed": draw(st.integers(0, 2**20))}


def strategy(tier):
    return _cases(all_s=(tier == "thorough"))


def check_case(case) -> Result:
    import os

    r = Result()
    make, seq, ids, cfg = c26._setup(case)
    r.label(case["kind"], "reorder_on" if cfg.optimize_qubit_ordering else "reorder_off")
    with crash.workdir():
        e2e.seed_all(case["seed"])
        status, ref, info = crash.run_with_saves(make)
        if status != "finished":
            from pbt.common import HarnessError

            raise HarnessError("uninterrupted run crashed")
        K = info["saves"]
        if K < 2:
            r.discard = "fewer than two saves"
            return r
        saves = list(range(2, K + 1)) if case["all_s"] else sorted({2 + (s % (K - 1)) for s in case["saves"]})
        n_points = 0
        n_between = 0
        for s in saves:
            events = info["events_per_save"][s - 1]
            ne = len(events)
            if ne == 0:
                r.fail("save_emits_no_filesystem_event", f"save {s}: nothing observed - the enumeration would be vacuous")
                return r
            variants = [(j, None) for j in range(ne + 1)]
            # torn write: crash at the event following an open-for-writing, with that file truncated
            variants += [(j + 1, case["torn"]) for j, ev in enumerate(events) if ev[0] == "open"]
            for j, torn in variants:
                n_points += 1
                n_between += (0 < j < ne) or torn is not None
                e2e.seed_all(case["seed"])
                if j < ne:
                    status, path, inf2 = crash.run_with_saves(make, fs_crash=(s, j), torn_fraction=torn)
                else:
                    status, path, inf2 = crash.run_with_saves(make, crash_at_save=s)  # after the whole save: file copied aside
                if status != "crashed":
                    r.fail("crash_point_not_reached", f"save {s}, event {j}/{ne}")
                    continue
                where = f"save {s}/{K}, before fs event {j}/{ne} {events[j] if j < ne else '(after the last event)'}" + \
                        (f", file being written torn to {torn:.3f} of its size" if torn is not None else "") + f"; events of this save: {events}"
                adv = inf2["autosave_file"] if j < ne else path
                if not os.path.isfile(adv):
                    left = sorted(os.listdir(os.path.dirname(adv)))
                    r.fail("no_file_under_advertised_name", f"{where}; directory now holds {left}")
                    break
                e2e.seed_all(case["seed"] + 1)
                try:
                    got = crash.resume(adv)
                except BaseException as e:  # noqa: BLE001
                    import traceback

                    r.fail("autosave_not_loadable", f"{where}: " + "".join(traceback.format_exception(type(e), e, e.__traceback__))[-700:])
                    break
                crash.compare_results(r, ref, got, what="after_crash_in_save", tol=TOL["values"])
                if r.violations:
                    r.violations[-1]["detail"] = f"[{where}] " + r.violations[-1]["detail"]
                    break
                # leave no stale siblings for the next variant
                for fn in os.listdir(os.path.dirname(adv)):
                    try:
                        os.remove(os.path.join(os.path.dirname(adv), fn))
                    except OSError:
                        pass
            if r.violations:
                break
        r.info = {"saves": K, "saves_attacked": saves, "crash_states": n_points, "units": n_points, "events_of_a_save": info["events_per_save"][1]}
        r.nontrivial = n_between > 0
        r.key = {k: v for k, v in case.items()}
        r.label(f"events_per_save={len(info['events_per_save'][1])}")
    return r
