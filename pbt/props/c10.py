"""C10: MPS truncation and canonical form honour their contract (model-based test over operation histories)."""
from __future__ import annotations

from hypothesis import strategies as st

from pbt.common import Result, cut

ID = "C10"
LEVEL = "exploration"
TOL = {"orthonormality": 1e-9, "norm_rel": 1e-9, "eigh_floor_rel": 1e-7,
       "truncation": "sqrt(N-1)*precision + eigh_floor_rel*|psi| per truncating operation (cap not binding)"}
RULE = ("histories of 1-14 operations on one MPS (2-10 sites, qubits or qutrits, initial bonds up to 32 incl. exactly "
        "low-rank ones, precision 1e-2..1e-12, max_bond_dim 1..64, amplitudes over 6 decades): orthogonalize(k), "
        "truncate(), + other (random MPS), scalar*, *=, apply(site, operator), MPO.apply_to, norm(), sample(), "
        "expect_batch, get_correlation_matrix, entanglement_entropy(b); a dense numpy vector is the shadow model.  "
        "Invariants after every operation: declared centre c => factors left of c left-orthonormal, right of c "
        "right-orthonormal, norm()==|factor[c]|==|dense|; operations documented to truncate leave every bond <= "
        "max_bond_dim; re-centring operations do not grow bonds; unless the cap binds the truncation error is <= "
        "sqrt(N-1)*precision (compared with the exact dense image of the operation); exact operations (scale, apply, "
        "re-centring) leave / produce exactly the dense image; operands of non-in-place operations are unchanged.  Plus a "
        "direct property of split_matrix (both directions, rank cap, preserve_norm).  non-trivial = history with a "
        "truncating operation after a bond-growing one (or a split with a binding error bound); distinct = case hash")
ASSUMPTIONS = ["the eigh-based split works on squared singular values: singular values below ~1e-8 of the largest are rounding "
               "noise, hence the 1e-7*|psi| floor on every truncation bound",
               "histories are generated as data (list of operations) and interpreted against the model: equivalent to a "
               "rule-based state machine, and the replay file is the history"]


def budget(tier):
    return {"cases": 800 if tier == "quick" else 12000, "shards": 16, "wall": 600 if tier == "quick" else 3000}


OPS = ["orthogonalize", "truncate", "add", "rmul", "imul", "apply", "mpo_apply", "norm", "sample", "expect_batch", "correlation", "entropy"]


@st.composite
def _history(draw):
    n = draw(st.integers(2, 10 if draw(st.booleans()) else 5))
    dim = draw(st.sampled_from([2, 2, 3]))
    ops = []
    for _ in range(draw(st.integers(1, 14))):
        k = draw(st.sampled_from(OPS + ["truncate", "add", "apply", "orthogonalize"]))
        op = {"op": k}
        if k in ("orthogonalize", "apply"):
            op["site"] = draw(st.integers(0, n - 1))
        if k == "entropy":
            op["site"] = draw(st.integers(0, n - 2))
        if k in ("add", "mpo_apply"):
            op["bond"] = draw(st.integers(1, 6 if k == "add" else 3))
            op["scale"] = 10.0 ** draw(st.integers(-3, 2))
            if k == "add" and draw(st.booleans()):
                # a perturbation of about the truncation threshold: several Schmidt values just below `precision`
                op["scale"] = ["precision", draw(st.sampled_from([0.7, 1.0, 1.5, 2.5, 4.0]))]
        if k in ("rmul", "imul"):
            op["c"] = [draw(st.floats(-3, 3).map(lambda v: round(v, 4))), draw(st.floats(-3, 3).map(lambda v: round(v, 4)))]
            if abs(op["c"][0]) + abs(op["c"][1]) < 1e-3:
                op["c"] = [0.5, 0.0]
        op["seed"] = draw(st.integers(0, 2**20))
        ops.append(op)
        if k == "add" and draw(st.integers(0, 3)) == 0:
            # a tail far above the state's own precision but below the package default (1e-5), then an operation that
            # truncates: the tail must survive when the state's precision is finer than the default
            op["scale"] = ["tail", draw(st.sampled_from([0.1, 1.0, 10.0]))]
            ops.append({"op": draw(st.sampled_from(["mpo_apply", "mpo_apply", "truncate", "add"])), "bond": draw(st.integers(1, 2)),
                        "scale": 1.0, "seed": draw(st.integers(0, 2**20))})
    return {"kind": "history", "n": n, "dim": dim, "precision": 10.0 ** draw(st.integers(-12, -2)),
            "max_bond": draw(st.sampled_from([1, 2, 3, 4, 8, 16, 64, 64, 1024])),
            "bond0": draw(st.sampled_from([1, 2, 3, 5, 8, 16, 32])), "lowrank": draw(st.booleans()),
            "centre0": draw(st.sampled_from(["none", "none", "canonical"])), "scale0": 10.0 ** draw(st.integers(-3, 3)),
            "seed": draw(st.integers(0, 2**20)), "ops": ops}


@st.composite
def _split(draw):
    return {"kind": "split", "rows": draw(st.integers(1, 40)), "cols": draw(st.integers(1, 40)),
            "rank": draw(st.one_of(st.none(), st.integers(1, 12))), "decay": draw(st.sampled_from([0.0, 0.3, 1.0, 3.0])),
            "cluster": draw(st.one_of(st.none(), st.tuples(st.integers(2, 6), st.sampled_from([0.45, 0.6, 0.75, 0.95])).map(list))),
            "max_error": 10.0 ** draw(st.integers(-12, -1)), "max_rank": draw(st.sampled_from([1, 2, 3, 5, 8, 1024])),
            "right": draw(st.booleans()), "preserve_norm": draw(st.booleans()), "scale": 10.0 ** draw(st.integers(-3, 3)),
            "seed": draw(st.integers(0, 2**20))}


def strategy(tier):
    return st.one_of(_history(), _history(), _history(), _split())


def _rand_mps(rng, n, dim, bond, scale=1.0, lowrank=False):
    import numpy as np
    import torch

    dims = [1] + [min(bond, dim ** min(i, n - i)) for i in range(1, n)] + [1]
    fs = []
    for i in range(n):
        a = rng.normal(size=(dims[i], dim, dims[i + 1])) + 1j * rng.normal(size=(dims[i], dim, dims[i + 1]))
        if lowrank and dims[i + 1] > 1 and i < n - 1:
            # make the right bond exactly rank-deficient: duplicate a column
            a[:, :, -1] = a[:, :, 0]
        fs.append(torch.tensor(a * (scale ** (1.0 / n)) / np.sqrt(max(dims[i], 1))))
    return fs


def _check_canonical(r, mps, dense_vec, what):
    import numpy as np

    from pbt.oracles import tn

    c = mps.orthogonality_center
    fs = [tn._np(f) for f in mps.factors]
    if c is None:
        return
    if not (0 <= c < len(fs)):
        r.fail("centre_out_of_range", f"{c} after {what}")
        return
    scale = 1.0
    for i, f in enumerate(fs):
        if i < c:
            m = f.reshape(-1, f.shape[2])
            e = np.abs(m.conj().T @ m - np.eye(m.shape[1])).max()
            if e > TOL["orthonormality"]:
                r.fail("not_left_orthonormal", f"site {i} (centre {c}) after {what}: deviation {e:.3e}")
                return
        elif i > c:
            m = f.reshape(f.shape[0], -1)
            e = np.abs(m @ m.conj().T - np.eye(m.shape[0])).max()
            if e > TOL["orthonormality"]:
                r.fail("not_right_orthonormal", f"site {i} (centre {c}) after {what}: deviation {e:.3e}")
                return
    nd = np.linalg.norm(dense_vec)
    nc = np.linalg.norm(fs[c])
    nn = float(mps.norm())
    if abs(nc - nd) > TOL["norm_rel"] * max(nd, 1e-300) + 1e-300 or abs(nn - nd) > TOL["norm_rel"] * max(nd, 1e-300) + 1e-300:
        r.fail("norm_is_not_centre_norm", f"after {what}: |dense|={nd!r} |centre|={nc!r} norm()={nn!r}")


def check_case(case) -> Result:
    import numpy as np
    import torch

    if case["kind"] == "split":
        return _check_split(case)
    from emu_mps import MPO, MPS

    from pbt.oracles import tn

    r = Result()
    n, dim = case["n"], case["dim"]
    rng = np.random.default_rng(case["seed"])
    eig = ("r", "g") if dim == 2 else ("g", "r", "x")
    prec, cap = case["precision"], case["max_bond"]
    fs = _rand_mps(rng, n, dim, case["bond0"], case["scale0"], case["lowrank"])
    mps = cut(MPS, fs, precision=prec, max_bond_dim=cap, num_gpus_to_use=0, eigenstates=eig)
    if case["centre0"] == "canonical":
        cut(mps.orthogonalize, int(rng.integers(0, n)))
    grown = False
    saw_trunc_after_growth = False
    r.label(f"dim{dim}", "sites<=5" if n <= 5 else "sites>5", "cap_small" if cap <= 4 else "cap_large")

    def bonds(m):
        return [f.shape[2] for f in m.factors[:-1]]

    def trunc_bound(psi_norm, p):
        return np.sqrt(n - 1) * p + TOL["eigh_floor_rel"] * psi_norm

    for idx, op in enumerate(case["ops"]):
        k = op["op"]
        what = f"op#{idx} {k}"
        orng = np.random.default_rng(op["seed"])
        before_bonds = bonds(mps)
        p_now, cap_now = mps.precision, mps.max_bond_dim
        truncating = False
        exact_image = None
        expected = None  # exact result of the operation on the current *actual* state (for the per-op truncation clause)
        actual_before = tn.mps_to_dense(mps.factors)
        operand_copies = None
        if k == "orthogonalize":
            cut(mps.orthogonalize, op["site"])
            if mps.orthogonality_center != op["site"]:
                r.fail("centre_not_moved", f"{what}: centre {mps.orthogonality_center} != {op['site']}")
        elif k == "truncate":
            cut(mps.truncate)
            truncating = True
            expected = actual_before
            if mps.orthogonality_center != 0:
                r.fail("truncate_centre_not_0", str(mps.orthogonality_center))
        elif k == "add":
            if isinstance(op["scale"], list) and op["scale"][0] == "tail":
                # geometric mean of the state's precision and the package default 1e-5 (only meaningful below the default)
                sc = op["scale"][1] * float(np.sqrt(prec * 1e-5)) if prec < 1e-6 else 1e-3
                r.label("add_tail_between_precision_and_default")
            else:
                sc = op["scale"] if not isinstance(op["scale"], list) else op["scale"][1] * prec
                if isinstance(op["scale"], list):
                    r.label("add_near_precision")
            other_f = _rand_mps(orng, n, dim, op["bond"], sc)
            other = MPS(other_f, precision=prec, max_bond_dim=cap, num_gpus_to_use=0, eigenstates=eig)
            od = tn.mps_to_dense(other.factors)
            res = cut(lambda: mps + other)
            # operands must be unchanged (not documented as in-place)
            if np.abs(tn.mps_to_dense(other.factors) - od).max() > 1e-12 * max(1.0, np.abs(od).max()):
                r.fail("add_mutated_right_operand", what)
            if np.abs(tn.mps_to_dense(mps.factors) - actual_before).max() > 1e-12 * max(1.0, np.abs(actual_before).max()):
                r.fail("add_mutated_left_operand", what)
            expected = actual_before + od
            mps = res
            truncating = True
            grown = True
        elif k in ("rmul", "imul"):
            c = complex(*op["c"])
            if k == "rmul":
                res = cut(lambda: c * mps)
                if np.abs(tn.mps_to_dense(mps.factors) - actual_before).max() > 1e-12 * max(1.0, np.abs(actual_before).max()):
                    r.fail("rmul_mutated_operand", what)
                mps = res
            else:
                mps *= c
            exact_image = c * actual_before
        elif k == "apply":
            A = orng.normal(size=(dim, dim)) + 1j * orng.normal(size=(dim, dim))
            cut(mps.apply, op["site"], torch.tensor(A))
            exact_image = tn.site_op_times_dense(A, op["site"], n, dim, actual_before)
            if mps.orthogonality_center != op["site"]:
                r.fail("apply_centre", f"{what}: centre {mps.orthogonality_center}")
        elif k == "mpo_apply":
            D = op["bond"]
            dims = [1] + [D] * (n - 1) + [1]
            ofs = [torch.tensor((orng.normal(size=(dims[i], dim, dim, dims[i + 1])) + 1j * orng.normal(size=(dims[i], dim, dim, dims[i + 1])))
                                * op["scale"] ** (1.0 / n) / np.sqrt(dims[i] * dim)) for i in range(n)]
            mpo = MPO(ofs, num_gpus_to_use=0)
            res = cut(mpo.apply_to, mps)
            if np.abs(tn.mps_to_dense(mps.factors) - actual_before).max() > 1e-12 * max(1.0, np.abs(actual_before).max()):
                r.fail("apply_to_mutated_state", what)
            expected = tn.mpo_times_dense(ofs, actual_before, dim)
            mps = res
            truncating = True
            grown = True
            if mps.orthogonality_center != 0:
                r.fail("apply_to_centre_not_0", str(mps.orthogonality_center))
        elif k == "norm":
            cut(mps.norm)
        elif k == "sample":
            if np.linalg.norm(actual_before) > 1e-200:
                torch.manual_seed(op["seed"])
                cut(mps.sample, num_shots=3)
        elif k == "expect_batch":
            cut(mps.expect_batch, torch.eye(dim, dtype=torch.complex128).unsqueeze(0))
        elif k == "correlation":
            cut(mps.get_correlation_matrix)
        elif k == "entropy":
            cut(mps.entanglement_entropy, op["site"])
        # ---------------- invariants
        actual = tn.mps_to_dense(mps.factors)
        nb = bonds(mps)
        if truncating:
            if grown:
                saw_trunc_after_growth = True
            if max(nb, default=0) > cap_now:
                r.fail("bond_exceeds_max_bond_dim", f"{what}: bonds {nb} > max_bond_dim {cap_now}")
            cap_binds = max(nb, default=0) >= cap_now
            nrm = float(np.linalg.norm(expected))
            err = float(np.linalg.norm(actual - expected))
            if cap_binds:
                r.label("cap_binds")  # nothing can be said about the error
            else:
                if err > trunc_bound(nrm, p_now):
                    r.fail("truncation_error_exceeds_precision", f"{what}: |before-after|={err:.3e} > sqrt(N-1)*precision={np.sqrt(n - 1) * p_now:.3e} "
                                                                  f"(+floor {TOL['eigh_floor_rel'] * nrm:.1e}); bonds {before_bonds}->{nb}, N={n}, |psi|={nrm:.3e}")
        else:
            if k not in ("apply",) and any(b2 > b1 for b1, b2 in zip(before_bonds, nb)):
                r.fail("recentring_grew_bonds", f"{what}: {before_bonds} -> {nb}")
            # non-truncating operations must not change the represented vector (apply/scale are accounted in the model)
            if k in ("orthogonalize", "norm", "sample", "expect_batch", "correlation", "entropy"):
                d = float(np.linalg.norm(actual - actual_before))
                if d > 1e-10 * max(float(np.linalg.norm(actual_before)), 1e-300):
                    r.fail("state_changed_by_recentring:" + k, f"{what}: |delta|={d:.3e} (|psi|={np.linalg.norm(actual_before):.3e})")
        if exact_image is not None:
            dm = float(np.linalg.norm(actual - exact_image))
            if dm > 1e-10 * max(float(np.linalg.norm(exact_image)), float(np.linalg.norm(actual_before)), 1e-300):
                r.fail("differs_from_dense_model:" + k, f"{what}: |actual-exact|={dm:.3e} (|exact|={np.linalg.norm(exact_image):.3e})")
        _check_canonical(r, mps, actual, what)
        if r.violations:
            break
    r.nontrivial = saw_trunc_after_growth
    return r


def _check_split(case) -> Result:
    import numpy as np
    import torch
    from emu_mps.utils import split_matrix

    r = Result()
    rng = np.random.default_rng(case["seed"])
    R, C = case["rows"], case["cols"]
    if case["rank"] is not None:
        k = min(case["rank"], R, C)
        m = (rng.normal(size=(R, k)) + 1j * rng.normal(size=(R, k))) @ (rng.normal(size=(k, C)) + 1j * rng.normal(size=(k, C)))
    else:
        m = rng.normal(size=(R, C)) + 1j * rng.normal(size=(R, C))
    if case["decay"]:
        u, s, vh = np.linalg.svd(m, full_matrices=False)
        s = s[0] * np.exp(-case["decay"] * np.arange(len(s)))
        m = (u * s) @ vh
    m = m * case["scale"] / max(np.linalg.norm(m), 1e-300)
    if case.get("cluster"):
        # designed spectrum: a few large values, then k values each a bit below max_error (their squares add up above it)
        kk, frac = case["cluster"]
        u, s, vh = np.linalg.svd(m, full_matrices=False)
        kk = min(kk, max(len(s) - 1, 0))
        if kk >= 1:
            s = s.copy()
            s[len(s) - kk:] = frac * case["max_error"]
            s[: len(s) - kk] = np.maximum(s[: len(s) - kk], 10 * case["max_error"])
            m = (u * s) @ vh
            r.label("split_cluster_below_threshold")
    l, rr = cut(split_matrix, torch.tensor(m), max_error=case["max_error"], max_rank=case["max_rank"],
                orth_center_right=case["right"], preserve_norm=case["preserve_norm"])
    l, rr = l.numpy(), rr.numpy()
    s = np.linalg.svd(m, compute_uv=False)
    nrm = np.linalg.norm(m)
    r.label("split", "right" if case["right"] else "left", "preserve_norm" if case["preserve_norm"] else "plain")
    rank = l.shape[1]
    if rank != rr.shape[0] or l.shape[0] != R or rr.shape[1] != C:
        r.fail("split_shapes", f"{l.shape} {rr.shape} for {m.shape}")
        return r
    if rank > case["max_rank"]:
        r.fail("split_rank_exceeds_max_rank", f"{rank} > {case['max_rank']}")
    iso = l if case["right"] else rr.conj().T
    e = np.abs(iso.conj().T @ iso - np.eye(rank)).max()
    if e > 1e-9:
        r.fail("split_orthogonal_side_not_isometry", f"deviation {e:.3e}")
    floor = TOL["eigh_floor_rel"] * nrm
    err = np.linalg.norm(m - l @ rr)
    full_rank_possible = min(R, C) if case["right"] is False else min(R, C)
    cap_binds = rank >= case["max_rank"]
    r.nontrivial = bool(s.size > 1 and (s[-1] < case["max_error"] or cap_binds))
    if not case["preserve_norm"]:
        if not cap_binds and err > case["max_error"] + floor:
            r.fail("split_error_exceeds_max_error", f"|m - l r|={err:.3e} > max_error={case['max_error']:.1e} (+floor {floor:.1e}); rank {rank}, singular values {s[:6]}")
        # optimality (Eckart-Young): the error equals the discarded tail
        tail = np.sqrt(np.sum(s[rank:] ** 2))
        if abs(err - tail) > 10 * floor + 1e-9 * nrm:
            r.fail("split_not_best_rank_k", f"|m - l r|={err:.3e} vs discarded singular tail {tail:.3e} (rank {rank})")
    else:
        if abs(np.linalg.norm(l @ rr) - nrm) > 1e-9 * nrm + 1e-300:
            r.fail("split_preserve_norm", f"|l r|={np.linalg.norm(l @ rr)!r} vs |m|={nrm!r}")
    return r
