"""C20: PCHIP1D reproduces the knots, is C1, monotone and bounded on each interval, and equals the
standard PCHIP interpolant (Fritsch-Carlson slopes, three-point end slopes), also when extrapolated."""
from __future__ import annotations

from hypothesis import strategies as st

from pbt.common import Result, cut

ID = "C20"
LEVEL = "exploration"
TOL = {"value_rel_local_scale": 1e-9, "knot_rel": 1e-12, "slope_rel": 1e-6}
RULE = ("2..500 knots, uniform (arange, the adapter's use) or non-uniform spacings over 6 decades; values: random, "
        "monotone runs, flat runs (exact repeats), sign changes, magnitudes 1e-12..1e12, leading/trailing zeros and "
        "constants; queries: knots, midpoints, dense per interval, and up to 2 intervals outside; two independent "
        "references (scipy PchipInterpolator, own Fritsch-Carlson) which must agree with each other else the case is "
        "discarded as ill-conditioned; non-trivial = >=3 knots with a non-constant value set; distinct = case hash")
ASSUMPTIONS = ["scipy.interpolate.PchipInterpolator(extrapolate=True) is 'the standard PCHIP interpolant'",
               "value products below 1e-300 (underflow of slope products) are outside the generated domain"]


def budget(tier):
    return {"cases": 4000 if tier == "quick" else 60000, "shards": 16, "wall": 600 if tier == "quick" else 3000}


@st.composite
def _cases(draw):
    n = draw(st.one_of(st.integers(2, 8), st.integers(2, 40), st.integers(2, 500)))
    uniform = draw(st.booleans())
    if uniform:
        hs = None
    else:
        hs = [round(10 ** draw(st.floats(-3, 3)), 9) for _ in range(n - 1)]
    style = draw(st.sampled_from(["random", "monotone", "flatruns", "pulse", "scales", "smallint", "const"]))
    if style == "random":
        ys = draw(st.lists(st.floats(-10, 10).map(lambda v: round(v, 6)), min_size=n, max_size=n))
    elif style == "monotone":
        inc = draw(st.lists(st.one_of(st.just(0.0), st.floats(0, 5).map(lambda v: round(v, 6))), min_size=n, max_size=n))
        s = draw(st.sampled_from([1, -1]))
        ys, acc = [], draw(st.floats(-5, 5).map(lambda v: round(v, 6)))
        for i in inc:
            acc = round(acc + s * i, 6)
            ys.append(acc)
    elif style == "flatruns":
        ys = []
        while len(ys) < n:
            v = draw(st.sampled_from([0.0, 1.0, 2.0, -1.0, 3.5, 0.5]))
            ys += [v] * draw(st.integers(1, 4))
        ys = ys[:n]
    elif style == "pulse":  # delay, waveform, delay: what Pulser samples look like
        lead = draw(st.integers(0, min(3, n - 1)))
        trail = draw(st.integers(0, min(3, n - 1 - lead)))
        body = n - lead - trail
        a = draw(st.floats(0, 10).map(lambda v: round(v, 6)))
        b = draw(st.floats(0, 10).map(lambda v: round(v, 6)))
        kind = draw(st.sampled_from(["const", "ramp", "bump"]))
        mid = [a] * body if kind == "const" else [a + (b - a) * i / max(1, body - 1) for i in range(body)]
        if kind == "bump":
            import math
            mid = [a * math.sin(math.pi * (i + 0.5) / body) ** 2 for i in range(body)]
        ys = [0.0] * lead + mid + [0.0] * trail
    elif style == "scales":
        ys = [round(draw(st.floats(-1, 1)), 6) * 10 ** draw(st.integers(-12, 12)) for _ in range(n)]
    elif style == "smallint":
        ys = [float(v) for v in draw(st.lists(st.integers(-2, 2), min_size=n, max_size=n))]
    else:
        ys = [draw(st.floats(-5, 5).map(lambda v: round(v, 6)))] * n
    q_out = draw(st.lists(st.floats(0.0, 2.0), min_size=1, max_size=4))
    return {"n": n, "hs": hs, "x0": draw(st.sampled_from([0.0, 0.0, -3.5, 100.0])) if not uniform else 0.0,
            "ys": ys, "q_out": q_out, "style": style}


def strategy(tier):
    return _cases()


def check_case(case) -> Result:
    import numpy as np
    import scipy.interpolate as si
    import torch
    from emu_base.math.pchip_torch import PCHIP1D

    from pbt.oracles import pchip_ref

    r = Result()
    n = case["n"]
    if case["hs"] is None:
        x = np.arange(n, dtype=float)
    else:
        x = case["x0"] + np.concatenate([[0.0], np.cumsum(case["hs"])])
    y = np.array(case["ys"], dtype=float)
    if not np.all(np.diff(x) > 0):
        r.discard = "knots not strictly increasing after rounding"
        return r
    r.label(case["style"], "uniform" if case["hs"] is None else "nonuniform", "n<=8" if n <= 8 else "n>8")
    r.nontrivial = n >= 3 and len(set(y.tolist())) > 1
    h = np.diff(x)
    if np.any(np.diff(y) == 0) and np.any(np.diff(y) != 0):
        r.label("has_flat_interval")
    if n >= 3 and (y[0] == y[1] != y[2] or y[-1] == y[-2] != y[-3]):
        r.label("flat_end_interval")

    P = cut(PCHIP1D, torch.tensor(x, dtype=torch.float64), torch.tensor(y, dtype=torch.float64))

    # queries
    sub = np.linspace(0, 1, 9)[1:-1]
    dense_q = (x[:-1, None] + h[:, None] * sub[None, :]).reshape(-1)
    outs = np.array([x[0] - u * h[0] for u in case["q_out"]] + [x[-1] + u * h[-1] for u in case["q_out"]])
    xq = np.concatenate([x, dense_q, outs])
    got = cut(lambda: P(torch.tensor(xq, dtype=torch.float64))).numpy()
    ref1 = si.PchipInterpolator(x, y, extrapolate=True)(xq)
    ref2 = pchip_ref.evaluate(x, y, xq)

    # local scale: values that enter the cubic of the interval a query falls in
    idx = np.clip(np.searchsorted(x, xq, side="right") - 1, 0, n - 2)
    ay = np.abs(y)
    pad = np.concatenate([[ay[0]], ay, [ay[-1], ay[-1]]])
    loc = np.maximum.reduce([pad[idx], pad[idx + 1], pad[idx + 2], pad[idx + 3]])
    # outside the range the cubic grows: scale by the extrapolation factor cubed
    tt = np.abs(xq - x[idx]) / h[idx]
    loc = loc * np.maximum(1.0, tt) ** 3 + 1e-300
    if np.max(np.abs(ref1 - ref2) / loc) > 1e-10:
        r.discard = "references disagree (ill-conditioned)"
        return r
    if not np.all(np.isfinite(got)):
        r.fail("non_finite", f"non-finite interpolant values at {xq[~np.isfinite(got)][:4]}")
        return r
    # (1) knots
    ek = np.abs(got[:n] - y)
    if np.any(ek > TOL["knot_rel"] * loc[:n]):  # the last knot is evaluated through its cubic: rounding ~ local scale
        k = int(np.argmax(ek / loc[:n]))
        r.fail("knot_not_reproduced", f"P(x[{k}])={got[k]!r} != y={y[k]!r}")
    # (2) equals standard PCHIP inside and outside
    rel = np.abs(got - ref1) / loc
    if np.max(rel) > TOL["value_rel_local_scale"]:
        k = int(np.argmax(rel))
        where = "outside" if (xq[k] < x[0] or xq[k] > x[-1]) else "inside"
        i = int(idx[k])
        which = "end_interval" if i in (0, n - 2) else "interior_interval"
        r.fail(f"differs_from_standard_pchip:{where}:{which}",
               f"x={xq[k]!r} (interval {i} of {n - 1}): got {got[k]!r}, scipy {ref1[k]!r}, own ref {ref2[k]!r}; y[{max(0, i - 1)}:{i + 3}]={y[max(0, i - 1):i + 3].tolist()}")
    # (3) shape: monotone and within the end values on every interval (dense samples incl. end points)
    inner = got[n:n + dense_q.size].reshape(n - 1, -1)
    full = np.concatenate([y[:-1, None], inner, y[1:, None]], axis=1)
    lo = np.minimum(y[:-1], y[1:])
    hi = np.maximum(y[:-1], y[1:])
    slack = 1e-11 * (np.maximum(np.abs(lo), np.abs(hi)) + 1e-300) + 1e-13 * np.max(np.abs(y))
    bad = (full.min(axis=1) < lo - slack) | (full.max(axis=1) > hi + slack)
    if np.any(bad):
        i = int(np.argmax(bad))
        r.fail("leaves_interval_range", f"interval {i}: values {full[i].tolist()} not within [{lo[i]}, {hi[i]}]")
    dif = np.diff(full, axis=1)
    sgn = np.sign(y[1:] - y[:-1])[:, None]
    mono_bad = np.any(dif * sgn < -slack[:, None], axis=1) | ((sgn[:, 0] == 0) & np.any(np.abs(dif) > slack[:, None], axis=1))
    if np.any(mono_bad & ~bad):
        i = int(np.argmax(mono_bad & ~bad))
        r.fail("not_monotone_on_interval", f"interval {i}: samples {full[i].tolist()}")
    # (4) C1 at interior knots: one-sided derivatives (autograd) just left / right of each knot
    if n >= 3:
        kn = x[1:-1]
        left = np.nextafter(kn, -np.inf)
        q = torch.tensor(np.concatenate([left, kn]), dtype=torch.float64, requires_grad=True)
        val = P(q)
        (g,) = torch.autograd.grad(val.sum(), q)
        g = g.numpy()
        gl, gr = g[: n - 2], g[n - 2:]
        vl = val.detach().numpy()[: n - 2]
        sl_scale = np.maximum(np.abs(np.diff(y))[:-1] / h[:-1], np.abs(np.diff(y))[1:] / h[1:]) + 1e-300
        if np.any(np.abs(gl - gr) > TOL["slope_rel"] * sl_scale + 1e-9 * sl_scale):
            k = int(np.argmax(np.abs(gl - gr) / sl_scale))
            r.fail("derivative_discontinuous", f"knot {k + 1}: left slope {gl[k]!r}, right slope {gr[k]!r}")
        # rounding in the Horner evaluation at t ~ h scales with |d|*h <= 3*max adjacent secant * h, not only with |y|
        vscale = np.maximum(np.abs(y[1:-1]), np.maximum(np.abs(y[:-2]), np.abs(y[2:]))) + 3.0 * sl_scale * h[:-1] + 1e-300
        if np.any(np.abs(vl - y[1:-1]) > 1e-9 * vscale):
            k = int(np.argmax(np.abs(vl - y[1:-1]) / vscale))
            r.fail("value_discontinuous", f"knot {k + 1}: left limit {vl[k]!r} vs y {y[k + 1]!r}")
    return r
