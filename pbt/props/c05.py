"""C05: the emu-mps MPO Hamiltonian contracts to the dense Rydberg / XY Hamiltonian (Pulser convention),
for 2- and 3-level atoms, and still does after the drive terms are updated in place."""
from __future__ import annotations

import itertools

from hypothesis import strategies as st

from pbt.common import Result, cut

ID = "C05"
LEVEL = "exploration"
TOL = {"rel": 1e-10}
RULE = ("N in 2..9; sparsity pattern = bitmask over the N(N-1)/2 pairs: ALL patterns enumerated for N<=5 (quick) / "
        "N<=6 (thorough) with deterministic pseudo-values, plus Hypothesis-generated (pattern - uniformly random, or sparse with "
        "1..N+1 couplings on 6-9 atoms, or structured -, values of either sign "
        "over 6 decades, Rydberg/XY, dim 2/3, omega/delta/phi incl. zeros, arbitrary complex dim x dim noise term, "
        "second in-place update_H with fresh drives); oracle: harness einsum contraction of the MPO factors vs numpy "
        "kron-built H; non-trivial = >=1 non-zero pair; distinct = (N, pattern, type, dim)")
ASSUMPTIONS = ["Pulser convention: Omega/2 e^{-i phi}|g><r| + h.c. - delta n + sum U n n (XY: U (s+ s- + h.c.)); "
               "for dim 3 the third level carries only the noise term"]
EXHAUSTIVE_NOTE = "all 2^(N(N-1)/2) sparsity patterns for N<=5 (quick) or N<=6 (thorough), both Hamiltonian types"


def budget(tier):
    return {"cases": 1500 if tier == "quick" else 20000, "shards": 16, "wall": 900 if tier == "quick" else 3000}


def _pairs(n):
    return [(i, j) for i in range(n) for j in range(i + 1, n)]


def _lcg(seed):
    x = (seed * 6364136223846793005 + 1442695040888963407) % (1 << 64)
    while True:
        x = (x * 6364136223846793005 + 1442695040888963407) % (1 << 64)
        yield ((x >> 11) / (1 << 53)) * 2 - 1


def enumerate_cases(tier):
    nmax = 5 if tier == "quick" else 6
    for n in range(2, nmax + 1):
        npairs = n * (n - 1) // 2
        for pattern in range(1 << npairs):
            g = _lcg(pattern * 131 + n)
            kind = "rydberg" if (pattern + n) % 2 == 0 else "XY"
            for kind in (("rydberg", "XY") if n <= 5 else (kind,)):
                dim = 2 + ((pattern >> 1) + n) % 2
                vals = [round(3 * next(g), 6) or 0.5 for _ in range(npairs)]
                mk = lambda: [round(4 * next(g), 6) for _ in range(n)]  # noqa: E731
                noise = [[[round(next(g), 6), round(next(g), 6)] for _ in range(dim)] for _ in range(dim)]
                yield {"n": n, "pattern": pattern, "vals": vals, "kind": kind, "dim": dim,
                       "omega": mk(), "delta": mk(), "phi": mk(), "noise": noise,
                       "omega2": mk(), "delta2": mk(), "phi2": mk(), "noise2": noise}


def _val():
    mag = st.one_of(st.floats(1e-3, 1e3), st.sampled_from([1.0, 0.5, 1e-6, 347.0]))
    return st.tuples(mag, st.sampled_from([1, 1, -1])).map(lambda t: round(t[0] * t[1], 9))


def _drv():
    return st.one_of(st.sampled_from([0.0, 1.0, -2.0]), st.floats(-20, 20).map(lambda v: round(v, 6)))


@st.composite
def _cases(draw):
    style = draw(st.sampled_from(["random", "random", "sparse", "sparse", "nn", "full", "star", "empty_half"]))
    n = draw(st.sampled_from([6, 6, 7, 7, 8, 9])) if style == "sparse" else draw(st.sampled_from([2, 3, 4, 5, 6, 6, 7, 7]))
    npairs = n * (n - 1) // 2
    if style == "random":
        pattern = draw(st.integers(0, (1 << npairs) - 1))
    elif style == "sparse":
        # a few couplings only (1 .. n+1 pairs) on 6-9 atoms: interaction channels that open and close at different
        # sites of the left and right halves, which uniformly random patterns (density 1/2) rarely isolate
        pattern = 0
        for b in draw(st.lists(st.integers(0, npairs - 1), min_size=1, max_size=n + 1, unique=True)):
            pattern |= 1 << b
    elif style == "full":
        pattern = (1 << npairs) - 1
    else:
        pattern = 0
        for b, (i, j) in enumerate(_pairs(n)):
            if (style == "nn" and j == i + 1) or (style == "star" and (i == 0 or j == n - 1)) or \
                    (style == "empty_half" and i >= n // 2):
                pattern |= 1 << b
    dim = 2 if n >= 7 else draw(st.sampled_from([2, 3]))  # 3^7 dense matrices are too slow to be worth it
    cplx = st.tuples(st.floats(-2, 2), st.floats(-2, 2)).map(lambda t: [round(t[0], 6), round(t[1], 6)])
    noise_s = st.one_of(st.just([[[0.0, 0.0]] * dim] * dim), st.lists(st.lists(cplx, min_size=dim, max_size=dim), min_size=dim, max_size=dim))
    lst = lambda s: st.lists(s, min_size=n, max_size=n)  # noqa: E731
    return {"n": n, "pattern": pattern, "vals": draw(st.lists(_val(), min_size=npairs, max_size=npairs)),
            "kind": draw(st.sampled_from(["rydberg", "XY"])), "dim": dim,
            "omega": draw(lst(_drv())), "delta": draw(lst(_drv())), "phi": draw(lst(_drv())), "noise": draw(noise_s),
            "omega2": draw(lst(_drv())), "delta2": draw(lst(_drv())), "phi2": draw(lst(_drv())), "noise2": draw(noise_s)}


def strategy(tier):
    return _cases()


def check_case(case) -> Result:
    import numpy as np
    import torch
    from emu_base import HamiltonianType
    from emu_mps.hamiltonian import make_H, update_H

    from pbt.oracles import dense, tn

    r = Result()
    n, dim, kind = case["n"], case["dim"], case["kind"]
    U = np.zeros((n, n))
    for b, (i, j) in enumerate(_pairs(n)):
        if case["pattern"] >> b & 1:
            U[i, j] = U[j, i] = case["vals"][b]
    r.key = [n, case["pattern"], kind, dim]
    r.nontrivial = bool(np.any(U != 0))
    r.label(f"N{n}", kind, f"dim{dim}")
    htype = HamiltonianType.Rydberg if kind == "rydberg" else HamiltonianType.XY
    import contextlib
    import io

    with contextlib.redirect_stdout(io.StringIO()):
        mpo = cut(make_H, interaction_matrix=torch.tensor(U, dtype=torch.float64), hamiltonian_type=htype, dim=dim,
                  num_gpus_to_use=0)
    for tag, (o, d, p, nz) in (("first", (case["omega"], case["delta"], case["phi"], case["noise"])),
                               ("updated", (case["omega2"], case["delta2"], case["phi2"], case["noise2"]))):
        noise = np.array([[complex(*c) for c in row] for row in nz])
        cut(update_H, hamiltonian=mpo, omega=torch.tensor(o, dtype=torch.complex128),
            delta=torch.tensor(d, dtype=torch.complex128), phi=torch.tensor(p, dtype=torch.complex128),
            noise=torch.tensor(noise, dtype=torch.complex128))
        got = tn.mpo_to_dense(mpo.factors)
        want = dense.hamiltonian(kind, np.array(o), np.array(d), np.array(p), U, d=dim, extra=noise)
        scale = max(1.0, np.abs(want).max())
        err = np.abs(got - want).max()
        if not err <= TOL["rel"] * scale:
            idx = np.unravel_index(np.argmax(np.abs(got - want)), got.shape)
            r.fail(f"mpo_ne_dense:{tag}", f"max |MPO-dense| = {err:.3e} (scale {scale:.3g}) at {idx}: got {got[idx]} want {want[idx]}")
    if np.any(noise != 0):
        r.label("noise_term")
    return r
