"""C26: resuming an emu-mps run from an autosave gives the results of the uninterrupted run (crash-point enumeration)."""
from __future__ import annotations

from hypothesis import strategies as st

from pbt import build, crash, e2e
from pbt.common import Result

ID = "C26"
LEVEL = "fault_enumeration"
TOL = {"values": 1e-9, "noisy_alpha_per_run": 1e-7}
RULE = ("small emu-mps runs (3-5 atoms on a chain whose register insertion order is shuffled, so that the optimised "
        "internal order differs from register order; a local pi-like pulse on one atom plus a global pulse; 2-6 time "
        "steps; TDVP or DMRG; optimize_qubit_ordering on/off; observables occupation, correlation matrix, energy, "
        "bitstrings, and with reordering off also state and entanglement entropy).  The harness forces an autosave at "
        "every progress step, and for crash point k (quick: first, last and generated ones; thorough: every k) stops the "
        "run right after the k-th save with a BaseException, copies the file and calls MPSBackend.resume on it.  Oracle: "
        "same tags, evaluation times, atom_order and values (1e-9) as the uninterrupted run, bitstring totals equal and "
        "the bit of every atom with occupation far from 1/2 on the right side in the majority of shots; the autosave "
        "file is gone after completion (both runs).  Noisy runs (dephasing, 2 atoms): every trajectory is interrupted at "
        "a generated save (jump-search iterations are saves too) and the mean occupation of the resumed trajectories is "
        "tested against the exact Lindblad value (empirical-Bernstein bound).  non-trivial = crash point strictly inside "
        "the run (not after the last sweep) with a non-identity internal order or DMRG/noisy; distinct = (case, k)")
ASSUMPTIONS = ["the wall-clock gate of save_simulation is bypassed by the harness (last_save_time=-inf); autosave_dt itself stays legal",
               "bitstrings are samples: the RNG state is not part of an autosave, so counts are compared through totals and "
               "near-deterministic positions, not literally",
               "noisy clause is statistical (alpha 1e-7 per run)"]
UNITS_NAME = "crash_points_resumed"
EXHAUSTIVE_NOTE = "thorough tier: every save point k of every generated run is enumerated"


def budget(tier):
    return {"cases": 32 if tier == "quick" else 240, "shards": 16, "wall": 900 if tier == "quick" else 3300}


@st.composite
def _cases(draw, all_k=False):
    kind = draw(st.sampled_from(["tdvp", "tdvp", "tdvp", "dmrg", "dmrg", "noisy", "multi"]))
    n = 2 if kind in ("noisy", "multi") else draw(st.integers(3, 5))
    order = list(draw(st.permutations(list(range(n)))))
    steps = draw(st.integers(2, 6 if kind != "dmrg" else 3))
    return {"kind": kind, "n": n, "order": order, "spacing": draw(st.sampled_from([6.0, 7.0, 8.5])), "steps": steps,
            "target": draw(st.integers(0, n - 1)), "reorder": draw(st.sampled_from([True, True, False])),
            "extra_obs": draw(st.booleans()), "all_k": all_k,
            "ks": draw(st.lists(st.integers(1, 400), min_size=1, max_size=4)),
            "n_traj": 40, "seed": draw(st.integers(0, 2**20))}


def strategy(tier):
    return _cases(all_k=(tier == "thorough"))


def _setup(case):
    """returns (make_backend, seq, ids)"""
    import warnings

    import pulser.backend as pb
    from emu_mps import EntanglementEntropy, MPSBackend
    from emu_mps.solver import Solver

    n = case["n"]
    chain = [[i * case["spacing"], 0.0] for i in range(n)]
    ids = [f"q{i}" for i in range(n)]
    # register insertion order shuffled: atom ids[k] sits at chain position order[k]
    coords = [chain[case["order"][k]] for k in range(n)]
    dt = 10
    T = dt * case["steps"]
    tq = ids[case["target"]]
    kind = case["kind"]
    if kind == "dmrg":
        ops = [{"t": "pulse", "ch": "g", "amp": {"k": "const", "d": T, "v": 4.0}, "det": {"k": "ramp", "d": T, "a": -3.0, "b": 5.0}, "phase": 0.0}]
        local = None
    else:
        d1 = max(4, T // 2)
        ops = [{"t": "pulse", "ch": "l", "amp": {"k": "const", "d": d1, "v": round(3.141592653589793 / (d1 * 1e-3), 6)},
                "det": {"k": "const", "d": d1, "v": 0.0}, "phase": 0.0},
               {"t": "pulse", "ch": "g", "amp": {"k": "const", "d": T - d1, "v": 1.5}, "det": {"k": "const", "d": T - d1, "v": -4.0}, "phase": 0.5}]
        local = tq
    seqc = {"reg": {"ids": ids, "coords": coords}, "basis": "rydberg", "device": "mock", "local": local, "dmm": None, "slm": None, "ops": ops}
    seq = build.sequence(seqc)
    ev = [0.0, 0.5, 1.0] if case["steps"] % 2 == 0 else [1.0 / case["steps"], 1.0]
    obs = [pb.Occupation(evaluation_times=ev), pb.CorrelationMatrix(evaluation_times=ev), pb.Energy(evaluation_times=ev),
           pb.BitStrings(evaluation_times=[1.0], num_shots=200)]
    reorder = case["reorder"]
    if case["extra_obs"] and not reorder and kind not in ("noisy", "multi"):
        obs += [pb.StateResult(evaluation_times=[1.0]), EntanglementEntropy(0, evaluation_times=ev)]
    kw = dict(dt=dt, observables=obs, precision=1e-8, optimize_qubit_ordering=reorder, autosave_dt=11.0,
              solver=Solver.DMRG if kind == "dmrg" else Solver.TDVP)
    if kind in ("noisy", "multi"):
        from pulser import NoiseModel

        kw["noise_model"] = NoiseModel(dephasing_rate=25.0)
    if kind == "multi":
        kw["n_trajectories"] = 2 + case["seed"] % 3  # ONE run of several trajectories, interrupted inside one of them
    with warnings.catch_warnings():
        warnings.simplefilter("ignore")
        cfg = e2e.mps_config(**kw)
    return (lambda: MPSBackend(seq, config=cfg)), seq, ids, cfg


def check_case(case) -> Result:
    import os

    import numpy as np

    r = Result()
    make, seq, ids, cfg = _setup(case)
    kind = case["kind"]
    r.label(kind, "reorder_on" if cfg.optimize_qubit_ordering else "reorder_off", f"n{case['n']}")
    with crash.workdir():
        if kind == "noisy":
            return _noisy(case, r, make, seq, ids, cfg)
        if kind == "multi":
            return _multi(case, r, make, ids, cfg)
        e2e.seed_all(case["seed"])
        status, ref, info = crash.run_with_saves(make)
        if status != "finished":
            from pbt.common import HarnessError

            raise HarnessError("uninterrupted run crashed")
        K = info["saves"]
        if info["autosave_file"] and os.path.exists(info["autosave_file"]):
            r.fail("autosave_file_left_behind:uninterrupted", info["autosave_file"])
        if tuple(ref.atom_order) != tuple(ids):
            r.fail("atom_order_not_register_order:uninterrupted", f"{ref.atom_order} vs {ids}")
        ks = list(range(1, K + 1)) if (case["all_k"] or K <= 16) else sorted({1, K, max(1, K - 1)} | {1 + (k % K) for k in case["ks"]})
        occ = e2e.to_np(ref.occupation[-1])

        def bit_check(counter):
            tot = sum(counter.values())
            for i, p in enumerate(occ):
                if abs(p - 0.5) > 0.3:
                    f1 = sum(c for k, c in counter.items() if k[i] == "1") / tot
                    if (f1 > 0.5) != (p > 0.5):
                        return f"atom {ids[i]} (position {i}) has occupation {p:.3f} but bit=1 in {f1:.2f} of the shots"
            return None

        perm_nontrivial = case["order"] != sorted(case["order"]) and cfg.optimize_qubit_ordering
        r.info = {"saves": K, "crash_points": ks, "units": len(ks)}
        inside = 0
        for k in ks:
            e2e.seed_all(case["seed"])
            status, path, inf2 = crash.run_with_saves(make, crash_at_save=k)
            if status != "crashed":
                r.fail("crash_point_not_reached", f"k={k} of {K}")
                continue
            inside += k < K
            e2e.seed_all(case["seed"] + 1)
            try:
                got = crash.resume(path)
            except BaseException as e:  # noqa: BLE001
                import traceback

                r.fail(f"resume_raised:{kind}", f"k={k}/{K}: " + "".join(traceback.format_exception(type(e), e, e.__traceback__))[-900:])
                continue
            if os.path.exists(path):
                r.fail("autosave_file_left_behind:resumed", f"k={k}")
            crash.compare_results(r, ref, got, what=kind + (":reordered" if perm_nontrivial else ""), tol=TOL["values"], bit_check=bit_check)
            if r.violations:
                r.violations[-1]["detail"] = f"[crash after save {k}/{K}] " + r.violations[-1]["detail"]
                break
        r.nontrivial = bool(inside and (perm_nontrivial or kind == "dmrg"))
        r.key = {"case": {k: v for k, v in case.items() if k != "ks"}, "ks": ks}
        if perm_nontrivial:
            r.label("internal_perm_nontrivial")
    return r


def _noisy(case, r, make, seq, ids, cfg):
    """every trajectory is interrupted once and resumed; mean occupation vs exact Lindblad"""
    import numpy as np

    from pbt.oracles import dense

    M = case["n_traj"]
    occs = []
    saves_seen = []
    jumps = 0
    for m in range(M):
        e2e.seed_all(case["seed"] * 1000 + m)
        status, ref, info = crash.run_with_saves(make)  # count saves of this trajectory
        K = info["saves"]
        saves_seen.append(K)
        k = 1 + (case["ks"][m % len(case["ks"])] + m) % K
        e2e.seed_all(case["seed"] * 1000 + m)
        status, path, _ = crash.run_with_saves(make, crash_at_save=k)
        e2e.seed_all(case["seed"] * 7919 + m)
        try:
            got = crash.resume(path)
        except BaseException as e:  # noqa: BLE001
            import traceback

            r.fail("resume_raised:noisy", f"trajectory {m}, k={k}/{K}: " + "".join(traceback.format_exception(type(e), e, e.__traceback__))[-900:])
            return r
        if tuple(got.atom_order) != tuple(ids):
            r.fail("atom_order_differs:noisy", f"{got.atom_order} vs {ids}")
            return r
        o = e2e.to_np(got.occupation[-1])
        if np.any(o < -1e-9) or np.any(o > 1 + 1e-9):
            r.fail("occupation_out_of_range:noisy", str(o.tolist()))
            return r
        occs.append(o)
    occs = np.array(occs)
    # exact Lindblad reference
    hd, trajs = dense.from_sequence(seq, noise_model=cfg.noise_model)
    basis, loc, traj, reps = trajs[0]
    loc = {q: {k: np.real(np.asarray(v, dtype=complex)) for k, v in d.items()} for q, d in loc.items()}
    T = float(seq.get_duration())
    grid = dense.emu_grid(T, 10.0, [1.0])
    U = dense.two_body(traj.interaction_matrix).copy()
    np.fill_diagonal(U, 0.0)
    ref = dense.Reference("rydberg", list(seq.register.qubit_ids), loc, lambda t: U, grid, d=2,
                          collapse=dense.pulser_collapse_ops(hd.lindblad_data, hd.basis_data.eigenbasis)).run()
    want = ref.occupation(len(grid) - 1)
    mean = occs.mean(axis=0)
    var = occs.var(axis=0, ddof=1)
    delta = TOL["noisy_alpha_per_run"] / (2 * len(want))
    bound = np.sqrt(2 * var * np.log(2 / delta) / M) + 7 * np.log(2 / delta) / (3 * (M - 1))  # empirical Bernstein, values in [0,1]
    r.info = {"mean": mean.tolist(), "exact": want.tolist(), "bound": bound.tolist(), "saves_per_trajectory": [min(saves_seen), max(saves_seen)]}
    r.nontrivial = max(saves_seen) > min(saves_seen)  # trajectories with jump searches have extra save points
    if np.any(np.abs(mean - want) > bound + 1e-6):
        r.fail("resumed_trajectories_differ_from_lindblad", f"mean occupation {mean.tolist()} vs exact {want.tolist()} (bound {bound.tolist()}, M={M})")
    return r


def _multi(case, r, make, ids, cfg):
    """one run of M > 1 trajectories interrupted after a generated save and resumed: the returned results must still combine
    M trajectories (deterministic witness: the bitstring counts add up to M x shots, as in the uninterrupted run)"""
    M = cfg.n_trajectories
    e2e.seed_all(case["seed"])
    status, ref, info = crash.run_with_saves(make)
    if status != "finished":
        from pbt.common import HarnessError

        raise HarnessError("uninterrupted run crashed")
    K = info["saves"]
    want_total = sum(ref.bitstrings[-1].values())
    if want_total != 200 * M:
        r.fail("bitstring_total:uninterrupted:multi", f"{want_total} != {200 * M}")
        return r
    r.nontrivial = K >= 2
    for k in sorted({1 + (x % K) for x in case["ks"]} | {max(1, K - 1)}):
        e2e.seed_all(case["seed"])
        status, path, _ = crash.run_with_saves(make, crash_at_save=k)
        if status != "crashed":
            continue
        e2e.seed_all(case["seed"] + 1)
        try:
            got = crash.resume(path)
        except BaseException as e:  # noqa: BLE001
            import traceback

            r.fail("resume_raised:multi", f"k={k}/{K}: " + "".join(traceback.format_exception(type(e), e, e.__traceback__))[-900:])
            return r
        tot = sum(got.bitstrings[-1].values())
        if tot != want_total:
            r.fail("resumed_multi_trajectory_run_does_not_combine_all_trajectories",
                   f"run of {M} trajectories interrupted after save {k}/{K} and resumed: bitstring counts add up to {tot}, uninterrupted run {want_total} "
                   f"(= {M} x 200 shots)")
            return r
        if tuple(got.atom_order) != tuple(ids):
            r.fail("atom_order_differs:multi", f"{got.atom_order} vs {ids}")
            return r
    return r
