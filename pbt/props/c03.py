"""C03: results are independent of atom labelling / register insertion order and of the internal qubit reordering."""
from __future__ import annotations

from hypothesis import strategies as st

from pbt import build, common, e2e, gen
from pbt.common import Result, cut

ID = "C03"
LEVEL = "exploration"
TOL = {"sharp": "2*(20*(2(N-1)*precision + 3N*precision*extra)*steps + 2e-7)", "quasi_free_extra": "2*sum_{i<j}|U_ij|*T",
       "bitstring_alpha_per_run": 1e-9}
RULE = ("pairs of emu-mps runs of the same physical sequence: base = generated register order with reordering off; variant "
        "= register insertion order permuted (ids travel with their coordinates) and optimize_qubit_ordering on or off; "
        "both backends' per-atom drives (retargeted local channel, DMM weights), SLM masks and dark atoms (bad-atom mask "
        "fixed per physical atom) are generated.  Regimes in which 2-site TDVP is exact up to truncation, so that a "
        "sharp tolerance is sound: (a) 2-4 atoms with a saturated initial state and real interactions, (b) 3-16 atoms "
        "with a user interaction matrix scaled to ~1e-4 rad/us (the bandwidth optimiser only sees the pattern, so it "
        "still permutes; the projection error is bounded by sum|U_ij|*T which is added to the tolerance).  Relation: "
        "occupation and correlation matrix permuted consistently, energy / second moment / variance equal, atom_order == "
        "the variant's register order, bit position i of the sampled bitstrings follows atom i (exact binomial test of "
        "each position's frequency against the base run's occupation).  non-trivial = variant's internal order differs "
        "from its register order or the register permutation is not the identity, and >=1 per-atom-distinct quantity; "
        "distinct = case hash")
ASSUMPTIONS = ["TDVP's documented projection / sweep errors depend on the internal order and are not controlled by precision: "
               "the relation is only asserted in regimes where those errors vanish or are bounded a priori",
               "bitstring positions are tested statistically (family-wise alpha 1e-9 per run)"]


def budget(tier):
    return {"cases": 128 if tier == "quick" else 1600, "shards": 16, "wall": 900 if tier == "quick" else 3300}


@st.composite
def _cases(draw, n_big=10):
    regime = draw(st.sampled_from(["exact", "quasi_free", "quasi_free"]))
    if regime == "exact":
        seq = draw(gen.seq_cases(n_min=2, n_max=4, basis="rydberg", allow_mod=False, max_ops=3, dur_hi=60, dmin=5.5, dmax=10.0))
    else:
        seq = draw(gen.seq_cases(n_min=3, n_max=n_big, basis="rydberg", allow_mod=False, max_ops=3, dur_hi=60, dmin=6.0, dmax=10.0,
                                 amp_kinds=("const", "ramp", "blackman"), det_kinds=("const", "ramp")))
    ids = seq["reg"]["ids"]
    n = len(ids)
    if seq["local"] is None and seq["dmm"] is None:
        seq["dmm"] = {ids[draw(st.integers(0, n - 1))]: 1.0}
        seq["ops"].append({"t": "dmm", "wf": {"k": "const", "d": draw(st.integers(8, 60)), "v": -draw(st.sampled_from([6.0, 12.0, 20.0]))}})
    c = {"seq": seq, "regime": regime, "dt": draw(st.sampled_from([5, 10, 10, 7, 2.5])),
         "precision": 10.0 ** draw(st.sampled_from([-6, -7, -8])),
         "evals": draw(gen.eval_time_sets(3)),
         "sigma": list(draw(st.permutations(list(range(n))))),
         "reorder": draw(st.sampled_from([True, True, False])),
         "dark": None, "shots": 1500, "seed": draw(st.integers(0, 2**20)),
         "with_bitstrings": draw(st.sampled_from([True, True, False])), "suffix": draw(st.sampled_from([None, None, "a", "both"]))}
    if regime == "quasi_free":
        npairs = n * (n - 1) // 2
        c["pattern"] = draw(st.lists(st.sampled_from([0.0, 0.0, 1.0, 0.3, 0.05, 2.0]), min_size=npairs, max_size=npairs))
        if draw(st.integers(0, 2)) == 0 and n >= 3:
            k = draw(st.integers(1, n - 2))
            c["dark"] = sorted(draw(st.permutations(ids))[:k])
    return c


def strategy(tier):
    return _cases(n_big=10 if tier == "quick" else 16)


def _run(case, seqc, reorder, psi0, dark_ids):
    """one emu-mps run; returns (results, info)"""
    import contextlib
    import io
    import warnings

    import numpy as np
    import pulser.backend as pb
    from emu_base import PulserData
    from emu_mps import MPS, MPSBackend

    seq = build.sequence(seqc)
    ids = list(seq.register.qubit_ids)
    n = len(ids)
    ev = case["evals"]
    # "both": an un-suffixed and a suffixed observable of the same kind side by side
    obs = [pb.Energy(evaluation_times=ev)]
    for sfx in ([None, "a"] if case.get("suffix") == "both" else [case.get("suffix")]):
        obs += [pb.Occupation(evaluation_times=ev, tag_suffix=sfx), pb.CorrelationMatrix(evaluation_times=ev, tag_suffix=sfx)]
        if case.get("with_bitstrings", True):
            obs.append(pb.BitStrings(evaluation_times=[1.0], num_shots=case["shots"], tag_suffix=sfx))
    if n <= 5:  # emu-mps squares the MPO for these: minutes per evaluation beyond ~6 atoms with a dense pattern
        obs += [pb.EnergySecondMoment(evaluation_times=ev), pb.EnergyVariance(evaluation_times=ev)]
    kw = dict(dt=case["dt"], observables=obs, precision=case["precision"], optimize_qubit_ordering=reorder)
    U = None
    if case["regime"] == "quasi_free":
        base_ids = case["seq"]["reg"]["ids"]
        nb = len(base_ids)
        P = np.zeros((nb, nb))
        k = 0
        for i in range(nb):
            for j in range(i + 1, nb):
                P[i, j] = P[j, i] = case["pattern"][k] * 1e-4
                k += 1
        idx = [base_ids.index(q) for q in ids]
        U = P[np.ix_(idx, idx)]
        kw["interaction_matrix"] = U
    if psi0 is not None:
        kw["initial_state"] = cut(MPS.from_state_amplitudes, eigenstates=("r", "g"), amplitudes=psi0)
    if dark_ids:
        from pulser import NoiseModel

        kw["noise_model"] = NoiseModel(state_prep_error=0.5, runs=1, samples_per_run=1)
    with warnings.catch_warnings():
        warnings.simplefilter("ignore")
        cfg = cut(e2e.mps_config, **kw)
    e2e.seed_all(case["seed"])
    with contextlib.redirect_stdout(io.StringIO()):
        if dark_ids:
            with e2e.forced_bad_atoms([q in dark_ids for q in ids]) as fb:
                res = cut(MPSBackend(seq, config=cfg).run)
            if fb.hits != 1:
                raise common.HarnessError(f"bad-atom draw intercepted {fb.hits} times")
        else:
            res = cut(MPSBackend(seq, config=cfg).run)
    return res, {"ids": ids, "cfg": cfg, "U": U, "seq": seq}


def check_case(case) -> Result:
    import numpy as np
    import torch
    from scipy.stats import binom

    r = Result()
    seqc = case["seq"]
    ids = list(seqc["reg"]["ids"])
    n = len(ids)
    sigma = case["sigma"]
    rng = np.random.default_rng(case["seed"])
    regime = case["regime"]
    # variant register: same atoms, insertion order permuted
    seqv = dict(seqc, reg=dict(seqc["reg"], ids=[ids[i] for i in sigma], coords=[seqc["reg"]["coords"][i] for i in sigma]))
    psi0_a = psi0_b = None
    if regime == "exact":
        D = 2**n
        v = rng.normal(size=D) + 1j * rng.normal(size=D)
        v /= np.linalg.norm(v)
        psi0_a, psi0_b = {}, {}
        for i in range(D):
            bits = format(i, f"0{n}b")
            sa = bits.replace("0", "g").replace("1", "r")
            sb = "".join(sa[j] for j in sigma)  # position k of the variant holds atom sigma[k]
            psi0_a[sa] = complex(v[i])
            psi0_b[sb] = complex(v[i])
    dark = set(case["dark"] or [])
    if dark and seqc["slm"]:
        dark = set()  # keep the two features apart: pulser draws masks itself and the harness replaces them
    resA, infA = _run(case, seqc, False, psi0_a, dark)
    resB, infB = _run(case, seqv, case["reorder"], psi0_b, dark)
    idsB = infB["ids"]
    if tuple(resA.atom_order) != tuple(ids):
        r.fail("atom_order_not_register_order:base", f"{resA.atom_order} vs {ids}")
    if tuple(resB.atom_order) != tuple(idsB):
        r.fail("atom_order_not_register_order:variant", f"{resB.atom_order} vs {idsB} (reorder={case['reorder']})")
    mapB = [idsB.index(q) for q in ids]  # position in B of the atom at position i in A

    T = float(infA["seq"].get_duration())
    grid_steps = len(resA.statistics)
    prec = case["precision"]
    extra = infA["cfg"].extra_krylov_tolerance
    tol = 2 * (20.0 * (2 * (n - 1) * prec + 3 * n * prec * extra) * grid_steps + 2e-7)
    if regime == "quasi_free":
        tol += 2 * float(np.abs(np.triu(infA["U"], 1)).sum()) * T * 1e-3
    # internal permutation actually used by the variant (same call as the backend, same seed)
    perm_nontrivial = False
    if infB["cfg"].optimize_qubit_ordering:
        import emu_mps.optimatrix as optimat
        from emu_base import PulserData

        e2e.seed_all(case["seed"])
        pdB = PulserData(sequence=infB["seq"], config=infB["cfg"], dt=infB["cfg"].dt)
        sdB = next(iter(pdB.get_sequences()))
        e2e.seed_all(case["seed"])
        p = optimat.minimize_bandwidth(sdB.interaction_matrix(sdB.target_times[-1]))
        perm_nontrivial = p.tolist() != list(range(n))
    sigma_nontrivial = sigma != list(range(n))
    r.nontrivial = bool(perm_nontrivial or sigma_nontrivial)
    r.label(f"n{n}" if n <= 4 else ("n5-8" if n <= 8 else "n9+"), "regime:" + regime, "reorder_on" if infB["cfg"].optimize_qubit_ordering else "reorder_off",
            "local" if seqc["local"] else "nolocal", "dmm" if seqc["dmm"] else "nodmm", "slm" if seqc["slm"] else "noslm")
    if perm_nontrivial:
        r.label("internal_perm_nontrivial")
    if sigma_nontrivial:
        r.label("register_perm_nontrivial")
    if dark:
        r.label("dark_atoms")

    sfxs = ["", "_a"] if case.get("suffix") == "both" else [("_" + case["suffix"]) if case.get("suffix") else ""]
    if case.get("suffix"):
        r.label("tag_suffix" if case["suffix"] != "both" else "tag_suffix_and_plain_side_by_side")
    r.label("with_bitstrings" if case.get("with_bitstrings", True) else "no_bitstrings")

    def cmp(tag, transform, scale=1.0):
        a, b = getattr(resA, tag), getattr(resB, tag)
        ta, tb = resA.get_result_times(tag), resB.get_result_times(tag)
        if len(a) != len(b) or any(abs(x - y) > 1e-9 for x, y in zip(ta, tb)):
            r.fail("times_differ:" + tag, f"{ta} vs {tb}")
            return
        for t, x, y in zip(ta, a, b):
            x = e2e.to_np(x)
            y = transform(e2e.to_np(y))
            # energies are compared relative to their own magnitude where that is larger than the nominal scale (an SLM
            # mask adds detunings of ~1e4 rad/us; <H^2> goes through a truncated MPO product with relative error ~1e-8)
            err = float(np.max(np.abs(x - y))) / (max(scale, float(np.max(np.abs(x)))) if scale != 1.0 else 1.0)
            if not err <= tol:
                r.fail("relabelling_changes:" + tag + (":internal_reorder" if perm_nontrivial else ":register_order"),
                       f"t={t:.6g}: |delta|={err:.3e} > {tol:.3e}; base {np.round(x, 6).tolist()} variant(re-indexed) {np.round(y, 6).tolist()} "
                       f"n={n} regime={regime} reorder={case['reorder']} sigma={sigma} dark={sorted(dark)}")
                return

    def _per_suffix(sfx):
        cmp("occupation" + sfx, lambda y: y[mapB])
        cmp("correlation_matrix" + sfx, lambda y: y[np.ix_(mapB, mapB)])
        # bitstrings: position i <-> atom i
        occ_final = e2e.to_np(getattr(resA, "occupation" + sfx)[-1]) if abs(resA.get_result_times("occupation" + sfx)[-1] - 1.0) < 1e-9 else None
        for name, res, idl in (("base", resA, ids), ("variant", resB, idsB)):
            if not case.get("with_bitstrings", True):
                break
            bs = getattr(res, "bitstrings" + sfx)[-1]
            tot = sum(bs.values())
            if tot != case["shots"]:
                r.fail("bitstring_total:" + name, f"{tot} != {case['shots']}")
            if any(len(k) != n or set(k) - {"0", "1"} for k in bs):
                r.fail("bitstring_keys:" + name, str(list(bs)[:3]))
                continue
            for q in dark:
                pos = idl.index(q)
                if any(k[pos] == "1" and c > 0 for k, c in bs.items()):
                    r.fail("dark_atom_measured_excited:" + name, f"atom {q} at position {pos}")
            if occ_final is not None and regime == "quasi_free":
                # product-like state: each position is Bernoulli(p_atom); exact two-sided binomial test
                alpha = TOL["bitstring_alpha_per_run"] / (2 * n)
                for i, q in enumerate(ids):
                    pos = idl.index(q)
                    k1 = sum(c for k, c in bs.items() if k[pos] == "1")
                    p = min(max(float(occ_final[i]), 0.0), 1.0)
                    # widen p by the comparison tolerance so that the test is about positions, not about rounding
                    lo = binom.cdf(k1, tot, max(0.0, p - tol))  # "too few ones" judged against the smallest admissible p
                    hi = binom.sf(k1 - 1, tot, min(1.0, p + tol))  # "too many ones" against the largest admissible p
                    if min(lo, hi) < alpha:
                        r.fail("bitstring_position_not_atom_order:" + name + (":internal_reorder" if perm_nontrivial and name == "variant" else ""),
                               f"atom {q} (position {pos}): {k1}/{tot} ones, occupation {p:.4f}; tail prob {min(lo, hi):.2e}")
                        break

    # energy scale: 1 + largest drive
    cmp("energy", lambda y: y, scale=1.0 + 20.0 * n)
    if n <= 5:
        cmp("energy_second_moment", lambda y: y, scale=(1.0 + 20.0 * n) ** 2)
        cmp("energy_variance", lambda y: y, scale=(1.0 + 20.0 * n) ** 2)
    for sfx in sfxs:
        _per_suffix(sfx)
    return r
