"""C08: Lanczos ground-state search is variational, self-consistent and meets its residual."""
from __future__ import annotations

from hypothesis import strategies as st

from pbt.common import Result, cut

ID = "C08"
LEVEL = "exploration"
TOL = {"unit_norm": 1e-10, "rayleigh_rel_normH": 1e-9, "variational_rel_normH": 1e-9, "residual_slack_rel_normH": 1e-9,
       "residual_factor": 1.0 + 1e-6}
RULE = ("Hermitian matrices of dimension 1..128 with designed spectra (degenerate ground space, clustered, gapped, "
        "all-positive / all-negative shifts, tiny and huge scales) in a random unitary frame; start vectors random, "
        "orthogonal to the ground space, eigenvectors, basis vectors, any norm; tolerance 1e-3..1e-12; "
        "max_krylov_dim 2..100; max_restarts 0..20; oracle numpy.linalg.eigvalsh and explicit residual/Rayleigh "
        "quotient; non-trivial = dim>=4 and >=2 Lanczos iterations; distinct = case hash")
ASSUMPTIONS = ["matrices built from the case's integer seed with numpy PCG64",
               "rounding slack 1e-9*||H|| on energy comparisons and on the residual bound"]


def budget(tier):
    return {"cases": 2000 if tier == "quick" else 40000, "shards": 16, "wall": 600 if tier == "quick" else 3000}


@st.composite
def _cases(draw):
    return {
        "dim": draw(st.one_of(st.integers(1, 6), st.integers(8, 64), st.integers(16, 128), st.integers(16, 128))),
        "spec": draw(st.sampled_from(["random", "deg_ground", "clustered", "gapped", "positive", "negative", "tiny", "huge"])),
        "vkind": draw(st.sampled_from(["random", "random", "orth_ground", "eigvec", "basis", "near_ground"])),
        "vnorm": draw(st.sampled_from([1.0, 1e-3, 50.0])),
        "tol": 10.0 ** draw(st.integers(-12, -3)),
        "kdim": draw(st.one_of(st.just(100), st.integers(2, 100), st.integers(2, 10))),
        "restarts": draw(st.sampled_from([100, 0, 1, 3, 20])),
        "real": draw(st.booleans()),
        "seed": draw(st.integers(0, 2**31 - 1)),
    }


def strategy(tier):
    return _cases()


def check_case(case) -> Result:
    import numpy as np
    import torch
    from emu_base.math.krylov_energy_min import krylov_energy_minimization_impl

    r = Result()
    rng = np.random.default_rng(case["seed"])
    n = case["dim"]
    spec = case["spec"]
    ev = np.sort(rng.normal(size=n))
    if spec == "deg_ground" and n >= 3:
        k = int(rng.integers(2, min(n, 5) + 1))
        ev[:k] = ev[0]
    elif spec == "clustered":
        ev = ev[0] + np.sort(np.abs(rng.normal(size=n))) * 1e-6
        ev[-1] += 1.0
    elif spec == "gapped":
        ev[1:] += 3.0
    elif spec == "positive":
        ev = ev - ev[0] + 5.0
    elif spec == "negative":
        ev = ev - ev[-1] - 5.0
    elif spec == "tiny":
        ev = ev * 1e-8
    elif spec == "huge":
        ev = ev * 1e6
    if case["real"]:
        q, _ = np.linalg.qr(rng.normal(size=(n, n)))
    else:
        q, _ = np.linalg.qr(rng.normal(size=(n, n)) + 1j * rng.normal(size=(n, n)))
    H = (q * ev) @ q.conj().T
    H = (H + H.conj().T) / 2
    w = np.linalg.eigvalsh(H)
    lam0 = w[0]
    normH = max(abs(w[0]), abs(w[-1]), 1e-300)
    vk = case["vkind"]
    v = rng.normal(size=n) + (0 if case["real"] else 1j * rng.normal(size=n))
    v = v.astype(complex)
    if vk == "orth_ground" and n >= 2:
        g = q[:, np.isclose(ev, ev[0])]
        v = v - g @ (g.conj().T @ v)
    elif vk == "eigvec":
        v = q[:, rng.integers(0, n)].astype(complex)
    elif vk == "basis":
        v = np.zeros(n, dtype=complex)
        v[rng.integers(0, n)] = 1
    elif vk == "near_ground":
        v = q[:, 0] + 1e-6 * v
    if np.linalg.norm(v) < 1e-6:
        v = np.ones(n, dtype=complex)
    tol = case["tol"]
    # "non-zero start vector": the code calls a vector zero when its norm is below norm_tolerance
    v = v / np.linalg.norm(v) * max(case["vnorm"], 100 * tol)
    Ht = torch.tensor(H, dtype=torch.complex128)
    r.label(spec, vk, "real" if case["real"] else "complex")
    from pbt.common import CutRaised

    try:
        res = cut(krylov_energy_minimization_impl, lambda x: Ht @ x, torch.tensor(v, dtype=torch.complex128),
                  residual_tolerance=tol, norm_tolerance=tol, max_krylov_dim=case["kdim"], max_restarts=case["restarts"])
    except CutRaised as e:
        # attribution of one specific failure: the absolute breakdown test (beta < norm_tolerance) cannot fire when the
        # tolerance lies below the rounding level of the operator (~1e4*eps*|H|); Lanczos then runs past an exhausted
        # invariant subspace on rounding noise, loses orthogonality and may end in "Ritz vector has zero norm"
        if isinstance(e.exc, ValueError) and "Ritz vector has zero norm" in str(e.exc) and tol <= 1e4 * 2.3e-16 * normH \
                and case["kdim"] >= n - 1:
            r.fail("ritz_vector_zero_norm:tolerance_below_rounding_level",
                   f"ValueError('Ritz vector has zero norm'): tol={tol:g}, |H|={normH:.3g} (tol/|H|={tol / normH:.1e}), dim={n}, "
                   f"max_krylov_dim={case['kdim']}, start vector {vk}")
            r.nontrivial = n >= 4
            return r
        raise
    psi = res.ground_state.numpy()
    E = float(res.ground_energy)
    r.nontrivial = n >= 4 and res.iteration_count >= 2
    r.info = {"iters": res.iteration_count, "restarts": res.restart_count, "converged": bool(res.converged),
              "breakdown": bool(res.happy_breakdown)}
    if res.converged:
        r.label("converged")
    if res.happy_breakdown:
        r.label("happy_breakdown")
    if res.restart_count > 0:
        r.label("restarted")
    if not (res.converged or res.happy_breakdown):
        r.label("not_converged")
    nrm = np.linalg.norm(psi)
    if abs(nrm - 1) > TOL["unit_norm"]:
        r.fail("not_unit_norm", f"|psi|={nrm!r}")
        return r
    rq = np.vdot(psi, H @ psi).real / nrm**2
    true_res = np.linalg.norm(H @ psi - E * psi)
    # |E - RQ| <= resid^2-ish in exact arithmetic is 0 (E is the Ritz value of psi); allow rounding only
    if abs(E - rq) > TOL["rayleigh_rel_normH"] * normH:
        r.fail("energy_not_rayleigh_quotient", f"E={E!r} RQ={rq!r} diff={abs(E - rq):.3e} normH={normH:.3g} iters={res.iteration_count}")
    if E < lam0 - TOL["variational_rel_normH"] * normH:
        r.fail("energy_below_ground", f"E={E!r} < lambda_min={lam0!r}")
    if res.converged and not res.happy_breakdown:
        if true_res > tol * TOL["residual_factor"] + TOL["residual_slack_rel_normH"] * normH:
            r.fail("converged_but_residual_above_tolerance",
                   f"|H psi - E psi|={true_res:.3e} > tol={tol:g} (reported {float(res.residual_norm):.3e}, normH={normH:.3g}, "
                   f"iters={res.iteration_count}, restarts={res.restart_count})")
    return r
