"""C04: a backend either emulates a sequence with the Hamiltonian and basis Pulser defines, or raises before returning."""
from __future__ import annotations

import itertools

from hypothesis import strategies as st

from pbt import build, e2e, gen
from pbt.common import Result

ID = "C04"
LEVEL = "exploration"
TOL = {"supported_occupation": 1e-6}
RULE = ("every combination of backend {emu-sv, emu-mps} x channel basis {ground-rydberg, XY (mw_global), digital (raman_local), "
        "mixed rydberg+raman} x noise {none, dephasing, leakage (3-level effective noise), hyperfine dephasing} x solver "
        "{TDVP, DMRG} x initial state {none, wrong number of atoms, other backend's state type} is enumerated with "
        "generated two-atom registers and pulse parameters; oracle: a support table written from docs/emu_sv/index.md and "
        "docs/emu_mps/index.md: supported + noiseless -> occupations equal the dense two-atom reference (TDVP is exact for "
        "two atoms); supported + noisy -> run completes with occupations in [0,1]; unsupported -> run() must raise (any "
        "exception type) before returning results; non-trivial = unsupported combination or supported non-default basis; "
        "distinct = combination x generated instance")
ASSUMPTIONS = ["support table: emu-sv = ground-rydberg only, two levels, Lindbladian 2x2 noise; emu-mps = ground-rydberg and XY, "
               "optional leakage level; nobody supports the digital basis or mixed bases; DMRG supports no noise",
               "XY reference uses a user interaction matrix (pulser 1.9's extra C6 slice in XY mode is outside what can be "
               "established offline)"]

BACKENDS = ["sv", "mps"]
BASES = ["rydberg", "XY", "digital", "mixed"]
NOISES = ["none", "dephasing", "leakage", "hyperfine"]
SOLVERS = ["TDVP", "DMRG"]
INITS = ["none", "wrong_size", "wrong_type"]


def budget(tier):
    return {"cases": 96 if tier == "quick" else 1500, "shards": 16, "wall": 600 if tier == "quick" else 3000}


def _valid(b, basis, noise, solver, init):
    if b == "sv" and solver == "DMRG":
        return False
    if noise == "hyperfine" and basis not in ("digital", "mixed"):
        return False  # pulser itself rejects hyperfine dephasing without the digital basis being addressed? (still enumerated below if accepted)
    return True


def fixed_cases(tier):
    out = []
    for b, basis, noise, solver, init in itertools.product(BACKENDS, BASES, NOISES, SOLVERS, INITS):
        if not _valid(b, basis, noise, solver, init):
            continue
        if init != "none" and (noise != "none" or basis in ("digital", "mixed")):
            continue
        out.append({"backend": b, "basis": basis, "noise": noise, "solver": solver, "init": init, "amp": 6.0, "det": 2.0, "phase": 0.7,
                    "dur": 40, "U": 3.5, "dist": 7.0, "dt": 10, "seed": 3})
    return out


@st.composite
def _cases(draw):
    b = draw(st.sampled_from(BACKENDS))
    basis = draw(st.sampled_from(BASES))
    noise = draw(st.sampled_from(NOISES))
    solver = draw(st.sampled_from(SOLVERS)) if b == "mps" else "TDVP"
    init = draw(st.sampled_from(["none", "none", "wrong_size", "wrong_type"]))
    if noise == "hyperfine" and basis not in ("digital", "mixed"):
        noise = "none"
    if init != "none" and (noise != "none" or basis in ("digital", "mixed")):
        init = "none"
    return {"backend": b, "basis": basis, "noise": noise, "solver": solver, "init": init,
            "amp": draw(st.floats(0.5, 12.0).map(lambda v: round(v, 4))), "det": draw(st.floats(-10, 10).map(lambda v: round(v, 4))),
            "phase": draw(gen.phases()), "dur": draw(st.integers(8, 80)), "U": draw(st.floats(-20, 20).map(lambda v: round(v, 4))),
            "dist": draw(gen.half(5.0, 12.0)), "dt": draw(st.sampled_from([2, 5, 10, 7])), "seed": draw(st.integers(0, 2**20))}


def strategy(tier):
    return _cases()


def _sequence(case):
    from pulser import Pulse, Register, Sequence
    from pulser.devices import MockDevice
    from pulser.waveforms import ConstantWaveform

    reg = Register({"a": (0.0, 0.0), "b": (case["dist"], 0.0)})
    seq = Sequence(reg, MockDevice)
    d = int(case["dur"])
    p = Pulse(ConstantWaveform(d, case["amp"]), ConstantWaveform(d, case["det"]), case["phase"])
    basis = case["basis"]
    if basis == "rydberg":
        seq.declare_channel("g", "rydberg_global")
        seq.add(p, "g")
    elif basis == "XY":
        seq.declare_channel("g", "mw_global")
        seq.add(p, "g")
    elif basis == "digital":
        seq.declare_channel("r", "raman_local", initial_target="a")
        seq.add(p, "r")
    else:
        seq.declare_channel("g", "rydberg_global")
        seq.declare_channel("r", "raman_local", initial_target="a")
        seq.add(p, "g")
        seq.add(p, "r")
    return seq


def _noise(case):
    import numpy as np
    from pulser import NoiseModel

    nz = case["noise"]
    if nz == "dephasing":
        return NoiseModel(dephasing_rate=0.4)
    if nz == "leakage":
        op = np.zeros((3, 3))
        op[2, 0] = 1.0  # |x><r| in pulser's (r,g,x) order
        return NoiseModel(eff_noise_opers=(op,), eff_noise_rates=(0.5,), with_leakage=True)
    if nz == "hyperfine":
        return NoiseModel(hyperfine_dephasing_rate=0.4)
    return None


def supported(case) -> bool:
    b, basis, nz, solver = case["backend"], case["basis"], case["noise"], case["solver"]
    if case["init"] != "none":
        return False
    if basis in ("digital", "mixed"):
        return False
    if nz == "hyperfine":
        return False
    if solver == "DMRG" and nz != "none":
        return False
    if b == "sv":
        return basis == "rydberg" and nz in ("none", "dephasing")
    return True  # emu-mps: rydberg / XY, dephasing and leakage


def check_case(case) -> Result:
    import contextlib
    import io
    import warnings

    import numpy as np
    import torch

    r = Result()
    b = case["backend"]
    try:
        seq = _sequence(case)
        nm = _noise(case)
    except Exception as e:  # noqa: BLE001  pulser itself refuses this input: outside the domain
        r.discard = f"pulser rejects: {type(e).__name__}"
        return r
    sup = supported(case)
    r.label(b, "basis:" + case["basis"], "noise:" + case["noise"], "solver:" + case["solver"], "init:" + case["init"],
            "supported" if sup else "unsupported")
    r.nontrivial = (not sup) or case["basis"] == "XY" or case["noise"] != "none"
    r.key = {k: case[k] for k in ("backend", "basis", "noise", "solver", "init", "amp", "det", "dur", "U", "seed")}
    e2e.seed_all(case["seed"])
    U = np.array([[0.0, case["U"]], [case["U"], 0.0]])
    kw = dict(dt=case["dt"], observables=e2e.observables(["occupation"], [0.5, 1.0], None))
    if case["basis"] in ("rydberg", "XY"):
        kw["interaction_matrix"] = U
    if nm is not None:
        kw["noise_model"] = nm
    from emu_mps import MPS, MPSBackend
    from emu_mps.solver import Solver
    from emu_sv import StateVector, SVBackend

    if case["init"] == "wrong_size":
        kw["initial_state"] = (StateVector.make(3, gpu=False) if b == "sv" else MPS.make(3, eigenstates=("r", "g")))
    elif case["init"] == "wrong_type":
        kw["initial_state"] = (MPS.make(2, eigenstates=("r", "g")) if b == "sv" else StateVector.make(2, gpu=False))
    if b == "mps":
        kw["solver"] = Solver.DMRG if case["solver"] == "DMRG" else Solver.TDVP
        kw["precision"] = 1e-8
    raised = None
    res = None
    try:
        with warnings.catch_warnings():
            warnings.simplefilter("ignore")
            with contextlib.redirect_stdout(io.StringIO()):
                cfg = (e2e.sv_config if b == "sv" else e2e.mps_config)(**kw)
                res = (SVBackend if b == "sv" else MPSBackend)(seq, config=cfg).run()
    except (KeyboardInterrupt, SystemExit):
        raise
    except BaseException as e:  # noqa: BLE001
        raised = e
    combo = f"{b}:{case['basis']}:{case['noise']}:{case['solver']}:init_{case['init']}"
    if not sup:
        if raised is None:
            r.fail("unsupported_input_returned_results:" + combo,
                   f"run() returned results with tags {res.get_result_tags()} (occupation {[np.round(e2e.to_np(o), 4).tolist() for o in res.occupation]})")
        return r
    if raised is not None:
        from pbt import common

        what, text = common.classify_exception(raised)
        r.fail("supported_input_raised:" + combo, text[-1200:])
        return r
    occ = [e2e.to_np(o) for o in res.occupation]
    if any((not np.all(np.isfinite(o))) or o.min() < -1e-9 or o.max() > 1 + 1e-9 for o in occ):
        r.fail("occupation_out_of_range:" + combo, str([o.tolist() for o in occ]))
    if case["noise"] == "none" and case["solver"] == "TDVP":
        # dense two-atom reference, constant drive: per-step values from the C01 machinery
        from pbt.props import c01

        ref_case = {"seq": {"device": "mock", "slm": None}, "evals": [[0.5, 1.0]], "dt": case["dt"], "custom": {"vals": [case["U"]], "diag": 0.0},
                    "cutoff": 0.0}
        refs, info = c01.reference(ref_case, seq)
        ref = refs[0]
        for t_rel, o in zip(res.get_result_times("occupation"), occ):
            k = ref.index_of(float(t_rel) * info["T"], tol=1e-6 * info["T"])
            err = float(np.abs(o - ref.occupation(k)).max())
            if err > TOL["supported_occupation"]:
                r.fail("supported_input_differs_from_reference:" + combo, f"t={t_rel}: {o.tolist()} vs {ref.occupation(k).tolist()} (err {err:.2e})")
                break
    return r
