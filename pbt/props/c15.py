"""C15: sampled bitstrings follow the state's measurement distribution (Born rule + independent readout flips)."""
from __future__ import annotations

from hypothesis import strategies as st

from pbt.common import Result, cut, CutRaised

ID = "C15"
LEVEL = "exploration"
TOL = {"family_wise_alpha_per_run": 1e-7, "tests_per_run": "<= 18 outcome bins + N marginals, Bonferroni"}
RULE = ("states of 2-8 atoms: random MPS (qubits, and qutrits where the leakage level reads as 0), state vectors, mixed "
        "density matrices, peaked / flat / product / basis states; shots 1..20000; p_false_pos, p_false_neg in [0,1] incl. "
        "0 and 1; torch / random seeds are part of the case; oracle: exact outcome distribution = Born probabilities "
        "pushed through the per-bit flip channel [[1-fp, fn],[fp, 1-fn]] (computed densely); clauses: total count == "
        "shots exactly, keys are length-N strings over {0,1}, impossible outcomes never occur, basis states |r_i> give "
        "the bit at position i (deterministic), exact binomial test for each of the <=16 most probable outcomes, the "
        "pooled rest and every per-position marginal, Bonferroni at family-wise alpha 1e-7 per run; non-trivial = "
        ">=100 shots and a distribution with >=2 outcomes of probability >= 0.01; distinct = case hash")
ASSUMPTIONS = ["statistical acceptance: a correct sampler fails a run with probability <= 1e-7; a run is deterministic given its seed",
               "qutrit MPS with p_false_pos > 0 is documented as not implemented: a raise there is a pass"]


def budget(tier):
    return {"cases": 480 if tier == "quick" else 8000, "shards": 16, "wall": 600 if tier == "quick" else 3000}


@st.composite
def _cases(draw):
    rep = draw(st.sampled_from(["mps", "mps", "mps3", "sv", "dm"]))
    n = draw(st.integers(2, 8 if rep != "mps3" else 6))
    rate = st.one_of(st.sampled_from([0.0, 0.0, 1.0, 0.5, 0.05]), st.floats(0.0, 1.0).map(lambda v: round(v, 4)))
    return {"rep": rep, "n": n, "shape": draw(st.sampled_from(["random", "random", "peaked", "product", "basis", "flat"])),
            "bond": draw(st.sampled_from([1, 2, 4, 8])),
            "shots": draw(st.one_of(st.integers(1, 40), st.integers(1, 2000), st.sampled_from([5000, 20000]))),
            "fp": draw(rate), "fn": draw(rate), "basis_index": draw(st.integers(0, 2**8 - 1)),
            "seed": draw(st.integers(0, 2**31 - 1))}


def strategy(tier):
    return _cases()


def check_case(case) -> Result:
    import random

    import numpy as np
    import torch
    from scipy.stats import binomtest

    from pbt.oracles import tn

    r = Result()
    rep, n = case["rep"], case["n"]
    d = 3 if rep == "mps3" else 2
    D = d**n
    rng = np.random.default_rng(case["seed"])
    shape = case["shape"]
    # ---------------- state
    if shape == "basis":
        idx = case["basis_index"] % D
        v = np.zeros(D, dtype=complex)
        v[idx] = np.exp(1j * 0.3)
    elif shape == "product":
        v = np.array([1.0 + 0j])
        for _ in range(n):
            v = np.kron(v, rng.normal(size=d) + 1j * rng.normal(size=d))
    elif shape == "peaked":
        v = (rng.normal(size=D) + 1j * rng.normal(size=D)) * 0.05
        v[rng.integers(0, D)] += 1.0
        v[rng.integers(0, D)] += 0.7
    elif shape == "flat":
        v = np.exp(2j * np.pi * rng.random(D))
    else:
        v = rng.normal(size=D) + 1j * rng.normal(size=D)
    v = v / np.linalg.norm(v)
    fp, fn, shots = float(case["fp"]), float(case["fn"]), int(case["shots"])
    if rep in ("mps", "mps3"):
        from emu_mps import MPS

        from pbt.props.c10 import _rand_mps

        eig = ("r", "g") if d == 2 else ("g", "r", "x")
        if shape == "random":
            fs = _rand_mps(rng, n, d, case["bond"])
            st_ = MPS(fs, num_gpus_to_use=0, eigenstates=eig)
            st_ = (1 / st_.norm()) * st_
            v = tn.mps_to_dense(st_.factors)
        else:
            st_ = MPS(tn.dense_to_mps(v, n, d), num_gpus_to_use=0, eigenstates=eig)
        probs_levels = np.abs(v) ** 2
    elif rep == "sv":
        from emu_sv import StateVector

        st_ = StateVector(torch.tensor(v), gpu=False)
        probs_levels = np.abs(v) ** 2
    else:
        from emu_sv import DensityMatrix

        w = rng.normal(size=D) + 1j * rng.normal(size=D)
        w /= np.linalg.norm(w)
        rho = 0.7 * np.outer(v, v.conj()) + 0.3 * np.outer(w, w.conj())
        st_ = DensityMatrix(torch.tensor(rho), gpu=False)
        probs_levels = np.real(np.diag(rho))
    probs_levels = probs_levels / probs_levels.sum()
    # Born distribution over bitstrings (leakage level reads as '0'), atom 0 = leftmost character
    p_bits = np.zeros(2**n)
    for idx, p in enumerate(probs_levels):
        if p == 0:
            continue
        digits = []
        x = idx
        for _ in range(n):
            digits.append(x % d)
            x //= d
        digits = digits[::-1]
        b = 0
        for dg in digits:
            b = b * 2 + (1 if dg == 1 else 0)
        p_bits[b] += p
    # readout channel per bit: column = true bit, row = observed bit
    M = np.array([[1 - fp, fn], [fp, 1 - fn]])
    q = p_bits.reshape((2,) * n)
    for i in range(n):
        q = np.moveaxis(np.tensordot(M, q, axes=([1], [i])), 0, i)
    q = q.reshape(-1)
    q = np.clip(q, 0.0, 1.0)
    r.label(rep, shape, "fp>0" if fp > 0 else "fp=0", "fn>0" if fn > 0 else "fn=0",
            "shots>=100" if shots >= 100 else "shots<100")
    r.nontrivial = bool(shots >= 100 and np.sum(q >= 0.01) >= 2)

    # history: the same MPS object has been used before it is sampled (in a backend run CorrelationMatrix, Expectation,
    # ... act on the same state object as BitStrings); none of these calls changes the represented state
    if rep in ("mps", "mps3") and case["seed"] % 2 == 1:
        prior = ("correlation_matrix", "orthogonalize", "entropy", "expect_batch")[(case["seed"] // 2) % 4]
        if prior == "correlation_matrix":
            cut(st_.get_correlation_matrix)
        elif prior == "orthogonalize":
            cut(st_.orthogonalize, (case["seed"] // 8) % n)
        elif prior == "entropy":
            cut(st_.entanglement_entropy, (case["seed"] // 8) % (n - 1))
        else:
            cut(st_.expect_batch, torch.eye(d, dtype=torch.complex128).unsqueeze(0))
        r.label("used_before_sampling:" + prior)
    torch.manual_seed(case["seed"])
    random.seed(case["seed"])
    np.random.seed(case["seed"] % (2**32))
    try:
        counts = cut(st_.sample, num_shots=shots, p_false_pos=fp, p_false_neg=fn)
    except CutRaised as e:
        if d == 3 and fp > 0 and isinstance(e.exc, NotImplementedError):
            r.label("qutrit_fp_rejected")
            return r
        raise
    total = sum(counts.values())
    if total != shots:
        r.fail("total_count_differs_from_shots:" + rep, f"{total} != {shots}")
    bad_keys = [k for k in counts if len(k) != n or set(k) - {"0", "1"}]
    if bad_keys:
        r.fail("malformed_bitstring:" + rep, str(bad_keys[:3]))
        return r
    # impossible outcomes
    for k, c in counts.items():
        if c > 0 and q[int(k, 2)] < 1e-13:
            r.fail("impossible_outcome_sampled:" + rep, f"{k!r} x{c} has probability {q[int(k, 2)]:.2e} (fp={fp}, fn={fn}, shape={shape})")
            return r
    # statistical clauses
    order = np.argsort(-q)
    top = [int(i) for i in order[:16] if q[i] > 0]
    ntests = len(top) + 1 + n
    alpha = TOL["family_wise_alpha_per_run"] / ntests
    rest_p = float(max(0.0, 1.0 - q[top].sum()))
    rest_k = total - sum(counts.get(format(i, f"0{n}b"), 0) for i in top)
    tests = [(format(i, f"0{n}b"), counts.get(format(i, f"0{n}b"), 0), float(q[i])) for i in top] + [("<rest>", rest_k, rest_p)]
    qt = q.reshape((2,) * n)
    for i in range(n):
        p1 = float(qt.sum(axis=tuple(a for a in range(n) if a != i))[1])
        k1 = sum(c for k, c in counts.items() if k[i] == "1")
        tests.append((f"<bit {i} = 1>", k1, p1))
    for name, kk, pp in tests:
        pp = min(max(pp, 0.0), 1.0)
        pv = binomtest(int(kk), int(total), pp).pvalue if total > 0 else 1.0
        if pv < alpha:
            r.fail("distribution_differs:" + rep + (":readout" if (fp > 0 or fn > 0) else ":born"),
                   f"{name}: {kk}/{total} observed, probability {pp:.6f}; exact binomial p-value {pv:.2e} < {alpha:.2e} "
                   f"(fp={fp}, fn={fn}, shape={shape}, n={n})")
            break
    return r
