"""C13: every built-in observable a backend reports equals its mathematical definition on the normalised state."""
from __future__ import annotations

from hypothesis import strategies as st

from pbt import e2e
from pbt.common import Result, cut

ID = "C13"
LEVEL = "exploration"
TOL = {"rel": 1e-9, "mps_h2_abs": "sqrt(N-1)*1e-5 + 1e-7*|H^2|_F (MPO product truncated at the default precision)"}
RULE = ("for each representation -- state vector, density matrix (mixed), MPS (random bonds, non-canonical and "
        "unnormalised on input, qubits and qutrits) and MPS padded with dark atoms through extended_mps_factors / "
        "extended_mpo_factors with a generated mask -- a backend config is built with every built-in observable "
        "(Occupation, CorrelationMatrix, Energy, EnergySecondMoment, EnergyVariance, Fidelity, Expectation, StateResult, "
        "EntanglementEntropy for MPS) so that the backend's own patched implementations are the ones called, and "
        "obs.apply(config, state, hamiltonian) is compared with the numpy definition on the dense normalised state and "
        "the dense Hamiltonian built from generated omega/delta/phi/U (2-8 atoms); one case in six is a real emu-mps run "
        "(2-4 atoms; Lindblad noise so that the solver's state is un-normalised at evaluation times; state-preparation "
        "errors with a harness-chosen mask so that it is padded) whose reported values are compared with the definitions "
        "on the solver's own state captured at fill_results, normalised and padded by the harness; range clauses: occupation and "
        "correlation in [0,1], variance >= 0, entropy in [0, min(k, N-k) log d]; non-trivial = entangled state (not a "
        "product) with non-zero drive and interaction; distinct = case hash")
ASSUMPTIONS = ["the backends normalise the state before calling observables (emu-mps: 1/norm * state); the harness does the same",
               "MPS second moment / variance go through MPO@MPO, truncated at the default precision 1e-5 in Frobenius norm"]


def budget(tier):
    return {"cases": 900 if tier == "quick" else 15000, "shards": 16, "wall": 600 if tier == "quick" else 3000}


def _real(maxv=15.0):
    return st.one_of(st.sampled_from([0.0, 1.0, -2.5]), st.floats(-maxv, maxv).map(lambda v: round(v, 5)))


@st.composite
def _run_cases(draw):
    """an actual emu-mps run (MPSBackendImpl.fill_results is what normalises, pads and calls the observables): Lindblad
    noise makes the internal state un-normalised at evaluation times, state-preparation errors make it padded"""
    n = draw(st.integers(2, 4))
    masks = [None, [False] * n]
    if n >= 3:
        masks += [[i == k for i in range(n)] for k in range(n)]
    if n == 4:
        masks += [[True, False, False, True], [False, True, True, False], [True, True, False, False]]
    return {"rep": "mps_run", "n": n, "dim": 2, "mask": draw(st.sampled_from(masks)),
            "noise": draw(st.sampled_from([None, "relaxation", "relaxation", "dephasing", "depolarizing"])),
            "rate": draw(st.sampled_from([1.0, 4.0, 10.0])), "T": draw(st.sampled_from([40, 100, 200])),
            "amp": draw(st.sampled_from([0.0, 3.0, 8.0])), "det": draw(st.sampled_from([-4.0, 0.0, 6.0])),
            "spacing": draw(st.sampled_from([6.0, 8.0])), "init_r": draw(st.booleans()),
            "evals": draw(st.sampled_from([[1.0], [0.5, 1.0], [0.0, 0.3, 1.0], [0.25, 0.5, 0.75, 1.0]])), "seed": draw(st.integers(0, 2**20))}


@st.composite
def _cases(draw):
    rep = draw(st.sampled_from(["sv", "dm", "mps", "mps", "mps_dark", "mps_run"]))
    if rep == "mps_run":
        return draw(_run_cases())
    dim = 2
    if rep in ("mps", "mps_dark") and draw(st.integers(0, 2)) == 0:
        dim = 3
    n = draw(st.integers(2, 5 if (rep == "dm" or dim == 3) else (6 if rep.startswith("mps") else 8)))
    npairs = n * (n - 1) // 2
    c = {"rep": rep, "n": n, "dim": dim,
         "omega": [abs(draw(_real(12.0))) for _ in range(n)], "delta": [draw(_real()) for _ in range(n)],
         "phi": [draw(st.sampled_from([0.0, 0.0, 1.3, 3.1])) for _ in range(n)],
         "U": [draw(st.one_of(st.just(0.0), st.floats(-40, 40).map(lambda v: round(v, 4)))) for _ in range(npairs)],
         "bond": draw(st.sampled_from([1, 2, 3, 4, 8])), "scale": 10.0 ** draw(st.integers(-2, 2)),
         "canonical": draw(st.booleans()), "xy": False, "seed": draw(st.integers(0, 2**31 - 1))}
    if rep in ("mps", "mps_dark") and dim == 2 and draw(st.integers(0, 3)) == 0:
        c["xy"] = True
    if rep == "mps_dark":
        if dim == 3:
            n = min(n, 3)
            c.update(n=n, omega=c["omega"][:n], delta=c["delta"][:n], phi=c["phi"][:n], U=c["U"][: n * (n - 1) // 2])
        k = draw(st.integers(1, 2 if dim == 3 else 3))
        total = n + k
        pos = sorted(draw(st.permutations(list(range(total))))[:k])
        c["dark_positions"] = pos
    return c


def strategy(tier):
    return _cases()


def check_case(case) -> Result:
    import warnings

    import numpy as np
    import pulser.backend as pb
    import torch

    from pbt.oracles import dense, tn

    r = Result()
    if case["rep"] == "mps_run":
        return _check_run(case, r)
    rep, n, d = case["rep"], case["n"], case["dim"]
    rng = np.random.default_rng(case["seed"])
    om, de, ph = np.array(case["omega"]), np.array(case["delta"]), np.array(case["phi"])
    U = np.zeros((n, n))
    k = 0
    for i in range(n):
        for j in range(i + 1, n):
            U[i, j] = U[j, i] = case["U"][k]
            k += 1
    kind = "XY" if case["xy"] else "rydberg"
    H = dense.hamiltonian(kind, om, de, ph, U, d=d)
    D = d**n
    normH = max(1.0, float(np.linalg.norm(H, 2)))
    tt = lambda a: torch.tensor(a, dtype=torch.complex128)  # noqa: E731
    cpu = torch.device("cpu")
    r.label(rep, f"dim{d}", kind, f"n{n}")
    tol = TOL["rel"]

    # ---------------- build state + hamiltonian objects of the backend
    fid_vec = rng.normal(size=D) + 1j * rng.normal(size=D)
    fid_vec /= np.linalg.norm(fid_vec)
    Om = rng.normal(size=(D, D)) + 1j * rng.normal(size=(D, D))
    Om = (Om + Om.conj().T) / 2
    dark_pos = []
    if rep in ("sv", "dm"):
        from emu_sv import DenseOperator, DensityMatrix, StateVector
        from emu_sv.hamiltonian import RydbergHamiltonian
        from emu_sv.lindblad_operator import RydbergLindbladian

        fid_state = StateVector(tt(fid_vec), gpu=False)
        if rep == "dm":  # the noisy emu-sv state is a density matrix: the reference state is given as one too
            fid_state = DensityMatrix.from_state_vector(fid_state)
        oper = DenseOperator(tt(Om), gpu=False)
        names = ["occupation", "correlation", "energy", "energy2", "variance", "fidelity", "expectation", "state"]
        if rep == "dm":
            # DenseOperator.expect refuses density matrices ("Only expectation values of StateVectors are supported"):
            # Expectation is not reported for noisy emu-sv runs, so there is nothing to compare
            names.remove("expectation")
        obs = e2e.observables(names, [1.0], None, state=fid_state, oper=oper)
        with warnings.catch_warnings():
            warnings.simplefilter("ignore")
            cfg = e2e.sv_config(observables=obs)
        if rep == "sv":
            v = rng.normal(size=D) + 1j * rng.normal(size=D)
            if case["bond"] == 1:  # product state
                v = np.array([1.0 + 0j])
                for _ in range(n):
                    v = np.kron(v, rng.normal(size=2) + 1j * rng.normal(size=2))
            v /= np.linalg.norm(v)
            state = StateVector(tt(v), gpu=False)
            rho = np.outer(v, v.conj())
            ham = cut(RydbergHamiltonian, omegas=tt(om), deltas=tt(de), phis=tt(ph), interaction_matrix=torch.tensor(U), device=cpu)
            product = case["bond"] == 1
        else:
            rank = int(rng.integers(1, 4))
            rho = np.zeros((D, D), dtype=complex)
            ws = rng.random(rank) + 0.05
            ws /= ws.sum()
            for w in ws:
                v = rng.normal(size=D) + 1j * rng.normal(size=D)
                v /= np.linalg.norm(v)
                rho += w * np.outer(v, v.conj())
            state = DensityMatrix(tt(rho), gpu=False)
            Ls = [tt(rng.normal(size=(2, 2)) + 1j * rng.normal(size=(2, 2))) for _ in range(int(rng.integers(1, 3)))]
            ham = cut(RydbergLindbladian, omegas=tt(om), deltas=tt(de), phis=tt(ph), pulser_lindblads=Ls,
                      interaction_matrix=torch.tensor(U), device=cpu)
            product = False
        n_tot = n
        rho_full, H_full = rho, H
    else:
        from emu_base import HamiltonianType
        from emu_mps import MPO, MPS
        from emu_mps.hamiltonian import make_H, update_H
        from emu_mps.utils import extended_mpo_factors, extended_mps_factors, get_extended_site_index

        from pbt.props.c10 import _rand_mps

        eig = ("r", "g") if d == 2 else ("g", "r", "x")
        fs = _rand_mps(rng, n, d, case["bond"], case["scale"])
        raw = MPS(fs, num_gpus_to_use=0, eigenstates=eig, precision=1e-10)
        if case["canonical"]:
            raw.orthogonalize(int(rng.integers(0, n)))
        state = cut(lambda: (1 / raw.norm()) * raw)  # what fill_results does
        v = tn.mps_to_dense(state.factors)
        if abs(np.linalg.norm(v) - 1) > 1e-9:
            r.fail("normalisation_before_observables", f"|psi| = {np.linalg.norm(v)!r} after 1/norm * state")
        noise = np.zeros((d, d), dtype=complex)
        hmpo = cut(make_H, interaction_matrix=torch.tensor(U), hamiltonian_type=HamiltonianType.XY if case["xy"] else HamiltonianType.Rydberg,
                   dim=d, num_gpus_to_use=0)
        cut(update_H, hamiltonian=hmpo, omega=tt(om), delta=tt(de), phi=tt(ph), noise=tt(noise))
        product = case["bond"] == 1
        if rep == "mps_dark":
            n_tot = n + len(case["dark_positions"])
            where = torch.tensor([i not in case["dark_positions"] for i in range(n_tot)])
            dark_pos = list(case["dark_positions"])
            full_fs = cut(extended_mps_factors, state.factors, where)
            full_mpo = cut(extended_mpo_factors, hmpo.factors, where)
            try:
                state = MPS(full_fs, num_gpus_to_use=None, eigenstates=eig,
                            orthogonality_center=get_extended_site_index(where, state.orthogonality_center))
                ham = MPO(full_mpo)
            except AssertionError as e:
                r.fail(f"dark_atom_padding_unusable:dim{d}", f"extended factors rejected by MPS/MPO constructor: {e}")
                r.nontrivial = True
                return r
            # dense reference: dark atoms in |g> (index 0), identity in H
            good = [i for i in range(n_tot) if i not in dark_pos]
            vt = v.reshape((d,) * n)
            full = np.zeros((d,) * n_tot, dtype=complex)
            idx = tuple(slice(None) if i in good else 0 for i in range(n_tot))
            full[idx] = vt
            v = full.reshape(-1)
            H_full = np.zeros((d**n_tot, d**n_tot), dtype=complex)
            # H on good atoms (x) identity on dark ones: build by embedding
            Ht = H.reshape((d,) * (2 * n))
            eye = np.eye(d)
            # place via einsum-free loop over basis of dark atoms
            perm_out = good + dark_pos
            Hk = np.kron(H, np.eye(d ** len(dark_pos)))  # ordering: (good..., dark...)
            # permute tensor factors from (good..., dark...) to natural order
            Hk = Hk.reshape((d,) * (2 * n_tot))
            order = [perm_out.index(i) for i in range(n_tot)]
            Hk = Hk.transpose(order + [n_tot + o for o in order])
            H_full = Hk.reshape(d**n_tot, d**n_tot)
            r.label(f"dark{len(dark_pos)}")
        else:
            n_tot = n
            ham = hmpo
            H_full = H
        rho_full = np.outer(v, v.conj())
        Dt = d**n_tot
        fid_vec = rng.normal(size=Dt) + 1j * rng.normal(size=Dt)
        fid_vec /= np.linalg.norm(fid_vec)
        fid_state = MPS(tn.dense_to_mps(fid_vec, n_tot, d), num_gpus_to_use=0, eigenstates=eig)
        # expectation operator: a random MPO of bond 2
        dims = [1] + [2] * (n_tot - 1) + [1]
        of = [torch.tensor((rng.normal(size=(dims[i], d, d, dims[i + 1])) + 1j * rng.normal(size=(dims[i], d, d, dims[i + 1]))) / np.sqrt(dims[i] * d))
              for i in range(n_tot)]
        oper = MPO(of, num_gpus_to_use=0)
        Om = tn.mpo_to_dense(of)
        names = ["occupation", "correlation", "energy", "energy2", "variance", "fidelity", "expectation", "state", "entropy"]
        obs = e2e.observables(names, [1.0], None, state=fid_state, oper=oper)
        ent_site = int(rng.integers(0, n_tot - 1))
        from emu_mps import EntanglementEntropy

        obs[-1] = EntanglementEntropy(ent_site, evaluation_times=[1.0])
        with warnings.catch_warnings():
            warnings.simplefilter("ignore")
            cfg = e2e.mps_config(observables=obs)
    r.nontrivial = bool((not product) and np.any(om) and np.any(U))
    normHf = max(1.0, float(np.linalg.norm(H_full, 2)))

    # ---------------- numpy definitions
    nop = dense.n_op(d)
    nt = n_tot

    def ex(O):
        return np.trace(O @ rho_full)

    nops = [dense.site_op(nop, i, nt, d) for i in range(nt)]
    want = {
        "occupation": np.array([ex(nops[i]).real for i in range(nt)]),
        "correlation_matrix": np.array([[ex(nops[i] @ nops[j]).real for j in range(nt)] for i in range(nt)]),
        "energy": ex(H_full).real,
        "energy_second_moment": ex(H_full @ H_full).real,
        "fidelity": (np.vdot(fid_vec, rho_full @ fid_vec)).real,
        "expectation": ex(Om),
    }
    want["energy_variance"] = want["energy_second_moment"] - want["energy"] ** 2
    scales = {"occupation": 1.0, "correlation_matrix": 1.0, "energy": normHf, "energy_second_moment": normHf**2,
              "energy_variance": normHf**2, "fidelity": 1.0, "expectation": max(1.0, float(np.linalg.norm(Om, 2)))}
    # MPS: H^2 is an MPO product truncated at the default precision (absolute, Frobenius)
    h2_abs = 0.0
    if rep.startswith("mps"):
        h2_abs = np.sqrt(nt - 1) * 1e-5 + 1e-7 * float(np.linalg.norm(H_full @ H_full))

    # ---- Occupation / CorrelationMatrix with an explicit `one_state` (Pulser: "the eigenstate whose population is
    # measured"): the population of THAT level, per atom (two-level ground-rydberg cases; level chosen from the case seed)
    if d == 2 and kind == "rydberg":
        os_ = ("r", "g")[case["seed"] % 2]
        proj = np.zeros((2, 2), dtype=complex)
        lvl = 1 if os_ == "r" else 0
        proj[lvl, lvl] = 1
        with warnings.catch_warnings():
            warnings.simplefilter("ignore")
            o2 = [pb.Occupation(evaluation_times=[1.0], one_state=os_), pb.CorrelationMatrix(evaluation_times=[1.0], one_state=os_)]
            cfg2 = cut(e2e.sv_config if rep in ("sv", "dm") else e2e.mps_config, observables=o2)
        pops = [dense.site_op(proj, i, nt, 2) for i in range(nt)]
        for o in cfg2.observables:
            g2 = e2e.to_np(cut(o.apply, config=cfg2, state=state, hamiltonian=ham))
            w2 = np.array([np.trace(pops[i] @ rho_full).real for i in range(nt)]) if o.tag == "occupation" else \
                np.array([[np.trace(pops[i] @ pops[j] @ rho_full).real for j in range(nt)] for i in range(nt)])
            if g2.shape != w2.shape or np.abs(g2 - w2).max() > 1e-9:
                r.fail(f"one_state_ignored:{o.tag}" if os_ == "g" else f"differs_from_definition:{o.tag}:{rep}:one_state_r",
                       f"{o.tag}(one_state={os_!r}) on {rep}: got {np.round(np.real(g2), 5).tolist() if g2.size < 10 else '...'} "
                       f"want the population of |{os_}> {np.round(w2, 5).tolist() if w2.size < 10 else '...'}")
        r.label("one_state:" + os_)

    for o in cfg.observables:
        tag = o.tag
        got = cut(o.apply, config=cfg, state=state, hamiltonian=ham)
        if tag == "state":
            g = tn.mps_to_dense(got.factors) if rep.startswith("mps") else got.data.numpy()
            w = v if rep != "dm" else rho_full
            if np.abs(g - w).max() > tol * max(1.0, np.abs(w).max()):
                r.fail("state_result_differs:" + rep, f"max diff {np.abs(g - w).max():.3e}")
            continue
        if tag == "entanglement_entropy":
            sv = np.linalg.svd(v.reshape(d ** (ent_site + 1), -1), compute_uv=False)
            p = sv**2
            p = p[p > 1e-300]
            we = float(-(p * np.log(p)).sum())
            g = float(got)
            if abs(g - we) > 1e-8 * max(1.0, abs(we)):
                r.fail("entanglement_entropy:" + rep, f"bond {ent_site}: {g!r} vs {we!r}")
            if g < -1e-10 or g > min(ent_site + 1, nt - ent_site - 1) * np.log(d) + 1e-8:
                r.fail("entropy_out_of_range:" + rep, f"{g!r}")
            continue
        g = e2e.to_np(got)
        w = np.asarray(want[tag])
        if g.shape != w.shape:
            r.fail(f"shape:{tag}:{rep}", f"{g.shape} vs {w.shape}")
            continue
        extra = h2_abs if tag in ("energy_second_moment", "energy_variance") else 0.0
        err = float(np.abs(g - w).max())
        if not err <= tol * scales[tag] + extra:
            r.fail(f"differs_from_definition:{tag}:{rep}" + (f":dim{d}" if d == 3 else ""),
                   f"max diff {err:.3e} > {tol * scales[tag] + extra:.3e} (scale {scales[tag]:.3g}); got {np.round(g, 6).tolist() if g.size < 10 else '...'} "
                   f"want {np.round(w, 6).tolist() if w.size < 10 else '...'}")
        if tag in ("occupation", "correlation_matrix", "fidelity"):
            if np.any(np.real(g) < -1e-9) or np.any(np.real(g) > 1 + 1e-9):
                r.fail(f"out_of_range:{tag}:{rep}", str(np.round(g, 6).tolist())[:300])
        if tag == "energy_variance" and np.real(g) < -(1e-9 * normHf**2 + extra):
            r.fail(f"negative_variance:{rep}", f"{g!r} (|H|^2 = {normHf**2:.3g})")
        if dark_pos and tag == "occupation" and np.abs(g[dark_pos]).max() > 1e-12:
            r.fail("dark_atom_occupied", str(g.tolist()))
    return r


def _check_run(case, r):
    """backend level: observables reported by a real emu-mps run equal the definitions on the solver's own state at that
    time, normalised and padded with the dark atoms (captured at fill_results; no source hook)"""
    import contextlib
    import io
    import warnings

    import numpy as np
    import pulser.backend as pb
    from pulser import NoiseModel

    import emu_mps
    import emu_mps.mps_backend_impl as impl_mod
    from pbt import build, common
    from pbt.oracles import dense, tn

    n, mask = case["n"], case["mask"]
    ids = [f"a{i}" for i in range(n)]
    seqc = {"reg": {"ids": ids, "coords": [[case["spacing"] * i, 0.0] for i in range(n)]}, "basis": "rydberg", "device": "mock",
            "local": None, "dmm": None, "slm": None,
            # a drive that changes in time: the Hamiltonian differs from one evaluation time to the next
            "ops": [{"t": "pulse", "ch": "g", "amp": {"k": "ramp", "d": case["T"], "a": case["amp"], "b": case["amp"] + 4.0},
                     "det": {"k": "ramp", "d": case["T"], "a": case["det"], "b": case["det"] - 5.0}, "phase": 0.0}]}
    seq = build.sequence(seqc)
    ev = case["evals"]
    r.label("mps_run", f"n{n}", "noise:" + str(case["noise"]), "no_state_prep" if mask is None else ("dark_atoms" if any(mask) else "filter_without_dark_atoms"))
    nmk = {}
    if case["noise"]:
        nmk[case["noise"] + "_rate"] = case["rate"]
    if mask is not None:
        nmk.update(state_prep_error=0.5, runs=1, samples_per_run=1)
    good = [i for i in range(n) if not (mask and mask[i])]
    fid_state = emu_mps.MPS.from_state_amplitudes(eigenstates=("r", "g"), amplitudes={"r" * n: 1.0, "g" * n: 1.0})
    obs = [pb.Occupation(evaluation_times=ev), pb.CorrelationMatrix(evaluation_times=ev), pb.Energy(evaluation_times=ev),
           pb.EnergySecondMoment(evaluation_times=ev), pb.EnergyVariance(evaluation_times=ev), pb.StateResult(evaluation_times=ev),
           pb.Fidelity(fid_state, evaluation_times=ev)]
    kw = dict(dt=10, observables=obs, precision=1e-8, optimize_qubit_ordering=False, n_trajectories=1)
    if nmk:
        kw["noise_model"] = NoiseModel(**nmk)
    if case["init_r"] and mask is None:
        kw["initial_state"] = emu_mps.MPS.from_state_amplitudes(eigenstates=("r", "g"), amplitudes={"r" * n: 1.0, "g" + "r" * (n - 1): 0.5})
    with warnings.catch_warnings():
        warnings.simplefilter("ignore")
        cfg = cut(e2e.mps_config, **kw)
    captured = {}
    orig_fill = impl_mod.MPSBackendImpl.fill_results

    def fill(self):
        t = self.current_time / self.target_times[-1]
        flt = self.well_prepared_qubits_filter
        captured[round(float(t), 9)] = (tn.mps_to_dense(self.state.factors), tn.mpo_to_dense(self.hamiltonian.factors),
                                        None if flt is None else [bool(b) for b in flt])
        return orig_fill(self)

    impl_mod.MPSBackendImpl.fill_results = fill
    e2e.seed_all(case["seed"])
    try:
        with contextlib.redirect_stdout(io.StringIO()):
            if mask is not None:
                with e2e.forced_bad_atoms(mask) as fb:
                    res = cut(emu_mps.MPSBackend(seq, config=cfg).run)
                if fb.hits != 1:
                    raise common.HarnessError(f"bad-atom draw intercepted {fb.hits} times")
            else:
                res = cut(emu_mps.MPSBackend(seq, config=cfg).run)
    finally:
        impl_mod.MPSBackendImpl.fill_results = orig_fill
    nop = dense.n_op(2)
    fid_vec = np.zeros(2**n, dtype=complex)
    fid_vec[0] = fid_vec[-1] = 1 / np.sqrt(2)  # emu order: g = 0, r = 1; first atom most significant
    off_norm = 0.0
    for j, t_rel in enumerate(res.get_result_times("occupation")):
        key = round(float(t_rel), 9)
        if key not in captured:
            raise common.HarnessError(f"no captured state at {t_rel}: {sorted(captured)}")
        raw, Hred, flt = captured[key]
        if (flt is None) != (mask is None) or (flt is not None and flt != [not b for b in mask]):
            raise common.HarnessError(f"filter {flt} does not match the forced mask {mask}")
        nrm = np.linalg.norm(raw)
        off_norm = max(off_norm, abs(nrm - 1))
        psi = raw / nrm
        k = len(good)
        full = np.zeros([2] * n, dtype=complex)
        full[tuple(slice(None) if i in good else 0 for i in range(n))] = psi.reshape([2] * k)
        full = full.reshape(-1)
        Hsc = max(1.0, float(np.linalg.norm(Hred, 2)))
        nops = [dense.site_op(nop, i, n, 2) for i in range(n)]
        want = {"occupation": np.array([np.vdot(full, nops[i] @ full).real for i in range(n)]),
                "correlation_matrix": np.array([[np.vdot(full, nops[i] @ (nops[jj] @ full)).real for jj in range(n)] for i in range(n)]),
                "energy": np.vdot(psi, Hred @ psi).real, "energy_second_moment": np.vdot(psi, Hred @ (Hred @ psi)).real,
                "fidelity": abs(np.vdot(fid_vec, full)) ** 2}
        want["energy_variance"] = want["energy_second_moment"] - want["energy"] ** 2
        scales = {"occupation": 1.0, "correlation_matrix": 1.0, "energy": Hsc, "energy_second_moment": Hsc**2, "energy_variance": Hsc**2, "fidelity": 1.0}
        h2_abs = np.sqrt(max(n - 1, 1)) * 1e-5 + 1e-7 * float(np.linalg.norm(Hred @ Hred))
        where = f"t={float(t_rel):.3f}, |internal state|={nrm:.6f}, mask={mask}, noise={case['noise']}@{case['rate']}"
        for tag, w in want.items():
            g = e2e.to_np(getattr(res, tag)[j])
            w = np.asarray(w)
            if g.shape != w.shape:
                r.fail(f"shape:{tag}:mps_run", f"{g.shape} vs {w.shape}; {where}")
                continue
            extra = h2_abs if tag in ("energy_second_moment", "energy_variance") else 0.0
            err = float(np.abs(g - w).max())
            if not err <= 1e-8 * scales[tag] + extra:
                r.fail(f"differs_from_definition:{tag}:mps_run", f"max diff {err:.3e} > {1e-8 * scales[tag] + extra:.3e}; got "
                       f"{np.round(g, 6).tolist() if g.size < 10 else '...'} want {np.round(w, 6).tolist() if w.size < 10 else '...'}; {where}")
            if tag in ("occupation", "correlation_matrix", "fidelity") and (np.any(g < -1e-9) or np.any(g > 1 + 1e-9)):
                r.fail(f"out_of_range:{tag}:mps_run", str(np.round(g, 6).tolist())[:300] + "; " + where)
            if tag == "energy_variance" and g < -(1e-9 * Hsc**2 + extra):
                r.fail("negative_variance:mps_run", f"{g!r}; {where}")
        st_dense = tn.mps_to_dense(res.state[j].factors)
        if abs(np.linalg.norm(st_dense) - 1) > 1e-8:
            r.fail("state_result_not_normalised:mps_run", f"|StateResult| = {np.linalg.norm(st_dense)!r}; {where}")
        elif np.abs(st_dense - full).max() > 1e-8:
            r.fail("state_result_differs:mps_run", f"max diff {np.abs(st_dense - full).max():.3e}; {where}")
    if off_norm > 1e-3:
        r.label("internal_state_unnormalised")
    r.nontrivial = off_norm > 1e-3 or (mask is not None and any(mask))
    return r
