#!/bin/bash
# run quick tier of every registered check; summary line per property
cd "$(dirname "$0")/.."
ids=${@:-$(/venv/bin/python -c "import json;print(' '.join(c['property_id'] for c in json.load(open('MANIFEST.json'))['checks']))")}
for id in $ids; do
  s=$(date +%s); out=$(./check $id --tier quick 2>&1); rc=$?; e=$(date +%s)
  echo "$id rc=$rc $((e-s))s :: $(echo "$out" | grep -E '^\[|VIOLATION|KNOWN-FINDING|HARNESS' | head -3 | tr '\n' ' ' | cut -c1-260)"
done
/venv/bin/python - <<'PY'
import json,glob,jsonschema
sch=json.load(open('/root/.vp/EVIDENCE.schema.json'))
for f in sorted(glob.glob('evidence/*.json')):
    try: jsonschema.validate(json.load(open(f)),sch)
    except Exception as e: print("EVIDENCE INVALID",f,str(e)[:200])
print("evidence validated")
PY
