#!/venv/bin/python
"""Locate slow generated cases: regenerate the runner's cases (same seeds/shards) and run each under SIGALRM.
usage: tools/slowcases.py C03 [--tier quick] [--limit 30] [--shards 16] [--cases N]"""
import argparse
import json
import multiprocessing as mp
import os
import signal
import sys
import time

sys.path.insert(0, os.path.dirname(os.path.dirname(os.path.abspath(__file__))))


def work(a):
    prop, tier, seed, shard, n, limit = a
    from pbt import runner

    mod = runner._load(prop)
    import hypothesis
    from hypothesis import HealthCheck, Phase, given, settings

    cases = []

    @hypothesis.seed(seed * 1000 + shard)
    @settings(max_examples=n + (1 if shard > 0 else 0), database=None, deadline=None, phases=[Phase.generate],
              suppress_health_check=list(HealthCheck))
    @given(mod.strategy(tier))
    def drive(c):
        cases.append(c)

    drive()
    out = []

    class TO(BaseException):
        pass

    def h(*_):
        raise TO()

    signal.signal(signal.SIGALRM, h)
    for i, c in enumerate(cases):
        t = time.time()
        signal.alarm(limit)
        try:
            runner.run_case(mod, c)
            signal.alarm(0)
        except TO:
            out.append((shard, i, limit, c))
            continue
        dt = time.time() - t
        if dt > limit / 3:
            out.append((shard, i, round(dt, 1), c))
    return out


if __name__ == "__main__":
    ap = argparse.ArgumentParser()
    ap.add_argument("id")
    ap.add_argument("--tier", default="quick")
    ap.add_argument("--limit", type=int, default=30)
    ap.add_argument("--shards", type=int, default=16)
    ap.add_argument("--cases", type=int, default=None)
    a = ap.parse_args()
    from pbt import runner

    mod = runner._load(a.id.upper())
    n = a.cases or mod.budget(a.tier)["cases"]
    per = [n // a.shards + (1 if i < n % a.shards else 0) for i in range(a.shards)]
    with mp.get_context("spawn").Pool(16) as p:
        for res in p.map(work, [(a.id.upper(), a.tier, int(os.environ.get("VERIF_SEED", "1")), i, per[i], a.limit) for i in range(a.shards)]):
            for shard, i, dt, c in res:
                print(f"SLOW shard={shard} idx={i} t={dt}s case={json.dumps(c)[:1500]}")
