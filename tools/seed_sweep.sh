#!/bin/bash
# tools/seed_sweep.sh <seed> [ids...] : quick tier of every registered check at another VERIF_SEED, no evidence rewrite
cd "$(dirname "$0")/.."
seed=$1; shift
ids=${@:-$(/venv/bin/python -c "import json;print(' '.join(c['property_id'] for c in json.load(open('MANIFEST.json'))['checks']))")}
for id in $ids; do
  s=$(date +%s); out=$(VERIF_SEED=$seed ./check $id --tier quick --no-evidence 2>&1); rc=$?; e=$(date +%s)
  echo "seed=$seed $id rc=$rc $((e-s))s :: $(echo "$out" | grep -E '^\[|VIOLATION|HARNESS|bucket' | head -4 | tr '\n' ' ' | cut -c1-400)"
done
