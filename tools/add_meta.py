#!/venv/bin/python
"""merge JSON {ID: {technique,text,note[,category]}} from stdin into tools/manifest_meta.json and regenerate MANIFEST.json"""
import json, os, subprocess, sys
root = os.path.dirname(os.path.dirname(os.path.abspath(__file__)))
p = os.path.join(root, "tools", "manifest_meta.json")
m = json.load(open(p)); m.update(json.load(sys.stdin)); json.dump(m, open(p, "w"), indent=1)
subprocess.check_call(["/venv/bin/python", os.path.join(root, "tools", "gen_manifest.py")])
