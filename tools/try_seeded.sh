#!/bin/bash
# tools/try_seeded.sh <seed-dir containing patch.diff, demo.py> <worktree> <check ids...>
# verifies: demo passes on clean worktree, fails with patch; then runs the given checks against the patched worktree.
d=$(realpath "$1"); wt=$2; shift 2
git -C $wt checkout -q -- . || exit 2
(cd $wt && PYTHONPATH=$wt OMP_NUM_THREADS=2 timeout 600 /venv/bin/python $d/demo.py >/tmp/demo_clean.log 2>&1); c=$?
git -C $wt apply $d/patch.diff || { echo "PATCH DOES NOT APPLY"; exit 2; }
(cd $wt && PYTHONPATH=$wt OMP_NUM_THREADS=2 timeout 600 /venv/bin/python $d/demo.py >/tmp/demo_patched.log 2>&1); p=$?
echo "demo clean rc=$c patched rc=$p"
for id in "$@"; do
  out=$(VERIF_REPO=$wt ./check $id --tier quick --no-evidence --no-shrink 2>&1); rc=$?
  echo "check $id rc=$rc :: $(echo "$out" | grep -E 'bucket kind' | head -4 | cut -c1-160 | tr '\n' ';')"
done
git -C $wt checkout -q -- .
