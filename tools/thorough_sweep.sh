#!/bin/bash
# tools/thorough_sweep.sh <wall-seconds-per-check> [ids...] : thorough tier of every registered check under a wall budget, no evidence rewrite
cd "$(dirname "$0")/.."
wall=$1; shift
ids=${@:-$(/venv/bin/python -c "import json;print(' '.join(c['property_id'] for c in json.load(open('MANIFEST.json'))['checks']))")}
for id in $ids; do
  s=$(date +%s); out=$(./check $id --tier thorough --no-evidence --wall $wall 2>&1); rc=$?; e=$(date +%s)
  echo "thorough $id rc=$rc $((e-s))s :: $(echo "$out" | grep -E '^\[|VIOLATION|HARNESS|bucket|KNOWN' | head -5 | tr '\n' ' ' | cut -c1-500)"
done
