#!/venv/bin/python
"""Compare a junit xml against /root/.vp/BASELINE.json's stable_pass list."""
import json, sys, xml.etree.ElementTree as ET
base = json.load(open("/root/.vp/BASELINE.json"))
stable = set(base["stable_pass"])
res = {}
for tc in ET.parse(sys.argv[1]).getroot().iter("testcase"):
    name = f"{tc.get('classname')}::{tc.get('name')}"
    bad = any(c.tag in ("failure", "error") for c in tc)
    skipped = any(c.tag == "skipped" for c in tc)
    res[name] = "fail" if bad else ("skip" if skipped else "pass")
missing = sorted(s for s in stable if s not in res)
failing = sorted(s for s in stable if res.get(s) not in ("pass", None))
print(f"stable={len(stable)} seen={sum(1 for s in stable if s in res)} failing={len(failing)} missing={len(missing)}")
print(f"total pass={sum(v=='pass' for v in res.values())} fail={sum(v=='fail' for v in res.values())}")
for f in failing: print("STABLE-FAIL", f)
for f in missing[:20]: print("MISSING", f)
print("other failures:", [k for k,v in res.items() if v=='fail' and k not in stable][:40])
sys.exit(1 if failing or missing else 0)
