#!/venv/bin/python
"""Regenerate MANIFEST.json from the property modules present under pbt/props."""
import json, os, sys
sys.path.insert(0, os.path.dirname(os.path.dirname(os.path.abspath(__file__))))
ROOT = os.path.dirname(os.path.dirname(os.path.abspath(__file__)))
props = [json.loads(l) for l in open(os.path.join(ROOT, "properties.jsonl"))]

# per-property: technique, level text, level note, design section
META = json.load(open(os.path.join(ROOT, "tools", "manifest_meta.json")))
checks, na = [], []
for p in props:
    pid = p["id"]
    have = os.path.exists(os.path.join(ROOT, "pbt", "props", pid.lower() + ".py"))
    m = META.get(pid)
    if have and m and not m.get("not_applicable"):
        checks.append({
            "property_id": pid,
            "quick_cmd": f"./check {pid} --tier quick",
            "thorough_cmd": f"./check {pid} --tier thorough",
            "evidence_file": f"evidence/{pid}.json",
            "replay_cmd_template": f"./check {pid} --replay {{path}}",
            "engine": "pbt-runner",
            "level_claimed": {"category": m.get("category", "exploration"), "text": m["text"], "design_ref": f"DESIGN.md section 3 ({pid})"},
            "level_note": m["note"],
            "technique": m["technique"],
        })
    else:
        na.append({"property_id": pid, "reason": (m or {}).get("not_applicable", "check not built yet in this session (property-based check planned in DESIGN.md section 3)")})
man = {
    "version": 1,
    "setup_cmd": "./setup.sh",
    "hooks": {"guard": "PASQAL_IO_EMULATORS_VERIF", "enable": "no source hooks: checks instrument /repo's modules at run time (method wrapping, sys.addaudithook); ./check exports PASQAL_IO_EMULATORS_VERIF=1 for uniformity",
              "baseline_off_cmd": "cd /repo && /venv/bin/python -m pytest -ra -q -p no:cacheprovider --timeout=900 --continue-on-collection-errors", "source_commits": [], "add_only": True},
    "engines": [{"name": "pbt-runner", "path": "pbt/runner.py", "serves_properties": [c["property_id"] for c in checks],
                 "kind_free_text": "Hypothesis-driven generated-input search sharded over 16 processes; case = JSON data; explicit oracles (dense numpy/scipy reference models, metamorphic relations, invariants); collect-then-shrink; replay files bypass the library"}],
    "checks": checks,
    "not_applicable": na,
    "notes": "All checks import the emulators from /repo's working tree (VERIF_REPO overrides for mutation audits). Exit 0 held / 1 VIOLATION / 2 harness error. known_findings.txt lists known/fixed findings.",
}
json.dump(man, open(os.path.join(ROOT, "MANIFEST.json"), "w"), indent=1)
print("checks:", [c["property_id"] for c in checks]); print("not_applicable:", [n["property_id"] for n in na])
try:
    import jsonschema
    jsonschema.validate(man, json.load(open("/root/.vp/MANIFEST.schema.json"))); print("manifest valid")
except ImportError:
    pass
