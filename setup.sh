#!/bin/bash
# offline setup: make sure hypothesis is importable from /venv (already present on this image)
/venv/bin/python -c "import hypothesis" 2>/dev/null || \
  /venv/bin/pip install --no-index --find-links /opt/veriftools/wheels hypothesis
/venv/bin/python -c "import hypothesis, torch, pulser, scipy; print('setup ok', hypothesis.__version__, pulser.__version__)"
